#!/bin/sh
# Self-test of the machinery: every mutant (a compiling, test-passing change that breaks a property) must make
# the listed check(s) report a VIOLATION; every refactor (behaviour-preserving change) must keep them silent.
# Usage: selftest/run.sh [pattern]     (runs in a scratch worktree of /repo outside /repo and /verif)
HERE=$(cd "$(dirname "$0")" && pwd)
VERIF=$(dirname "$HERE")
SCRATCH=${VERIF_SCRATCH:-/var/tmp/verif-selftest.$$}
OUT=$SCRATCH.out
pat=${1:-}
fail=0
git -C /repo worktree add -f --detach "$SCRATCH" HEAD -q || exit 2
trap 'git -C /repo worktree remove --force "$SCRATCH" >/dev/null 2>&1; rm -rf "$OUT"' EXIT
run_case() {
  patch=$1; expect=$2; kind=$3
  case "$patch" in *"$pat"*) ;; *) return;; esac
  git -C "$SCRATCH" checkout -q -- . && git -C "$SCRATCH" clean -fdq
  if ! git -C "$SCRATCH" apply "$patch" 2>/dev/null; then echo "SKIP (does not apply) $(basename $patch)"; return; fi
  for prop in $(cat "$expect"); do
    VERIF_REPO=$SCRATCH VERIF_OUT=$OUT "$VERIF/check" $prop quick > "$OUT.log" 2>&1
    rc=$?
    if [ "$kind" = mutant ]; then
      if [ $rc -eq 1 ] && grep -q "^VIOLATION property=$prop" "$OUT.log"; then echo "ok   mutant   $(basename $patch) detected by $prop: $(grep -m1 '^VIOLATION' $OUT.log | sed 's/.*obligation=//' | cut -c1-110)";
      else echo "FAIL mutant   $(basename $patch) NOT detected by $prop (rc=$rc)"; fail=1; fi
    else
      if [ $rc -eq 0 ]; then echo "ok   refactor $(basename $patch) silent on $prop"; else echo "FAIL refactor $(basename $patch) raised an alarm on $prop (rc=$rc): $(grep -m1 -E 'VIOLATION|ENGINE' $OUT.log | cut -c1-160)"; fail=1; fi
    fi
  done
}
mkdir -p "$OUT"
for p in "$HERE"/mutants/*.patch; do [ -f "${p%.patch}.expect" ] && run_case "$p" "${p%.patch}.expect" mutant; done
for p in "$HERE"/refactors/*.patch; do [ -f "${p%.patch}.expect" ] && run_case "$p" "${p%.patch}.expect" refactor; done
exit $fail
