#!/bin/bash
# usage: tools/run_seeds.sh [pattern] : every seeded change under /verif/seeded (patch.diff) is applied to a scratch worktree of
# /repo HEAD and the quick check(s) named in its meta.json ("check": "tools/try_patch.sh <patch> <ids...>") must report a
# VIOLATION with exit 1. Runs ${PAR:-3} seeds side by side. Prints one line per seed/check and a summary; exit 1 if one is missed.
cd /verif || exit 2
pat=${1:-}
PAR=${PAR:-3}
out=/var/tmp/verif-seeds.$$
mkdir -p $out
one() {
  sid=$1
  ids=$(python3 -c "import json,sys; c=json.load(open('/verif/seeded/$sid/meta.json'))['check'].split(); import re; print(' '.join(t for t in c[2:] if re.fullmatch(r'C[0-9][0-9]', t)))")
  wt=$out/wt-$sid
  git -C /repo worktree add -f --detach $wt HEAD -q || { echo "ERR  $sid worktree"; return; }
  if ! git -C $wt apply /verif/seeded/$sid/patch.diff 2>/dev/null; then echo "SKIP $sid (patch does not apply)"; git -C /repo worktree remove --force $wt; return; fi
  for id in $ids; do
    VERIF_REPO=$wt VERIF_OUT=$wt.out /verif/check $id quick > $wt.log 2>&1; rc=$?
    if [ $rc -eq 1 ] && grep -q "^VIOLATION property=$id" $wt.log; then
      echo "ok   $sid detected by $id ($(grep -c '^VIOLATION' $wt.log) violations; $(grep -m1 '^VIOLATION' $wt.log | grep -q 'no-failing-input-found' && echo 'no input' || echo 'input reproduced'))"
    else
      echo "MISS $sid NOT detected by $id (rc=$rc) $(grep -m1 -E 'ENGINE|UNBOUND' $wt.log | cut -c1-120)"
    fi
  done
  git -C /repo worktree remove --force $wt >/dev/null 2>&1; rm -rf $wt.out $wt.log
}
n=0
for d in /verif/seeded/*/; do
  sid=$(basename $d)
  case "$sid" in *"$pat"*) ;; *) continue;; esac
  [ -f $d/patch.diff ] && [ -f $d/meta.json ] || continue
  one $sid > $out/$sid.res 2>&1 &
  n=$((n+1))
  if [ $((n % PAR)) -eq 0 ]; then wait; fi
done
wait
cat $out/*.res | sort -k2
miss=$(cat $out/*.res | grep -c '^MISS\|^ERR')
echo "seeds: $(ls $out/*.res | wc -l), missed: $miss"
rm -rf $out
git -C /repo worktree prune
[ "$miss" -eq 0 ]
