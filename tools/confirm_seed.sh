#!/bin/sh
# confirm_seed.sh <worktree> <demo-test-file-relative> <go test package> : checks a seeded change in its scratch worktree:
#   demo fails with the change, passes without it; existing suite (minus demo) passes with the change.
WT=$1; DEMO=$2; PKG=$3
export GOFLAGS= GOPROXY=off GOSUMDB=off GOTOOLCHAIN=local
cd "$WT" || exit 2
echo "== demo WITH change"; go test -mod=readonly -vet=off -count=1 -timeout 120s -run 'Demo|demo' $PKG > /tmp/cs.with 2>&1; echo "rc=$?"; tail -3 /tmp/cs.with
git stash -q -- $(git diff --name-only) ; echo "== demo WITHOUT change"; go test -mod=readonly -vet=off -count=1 -timeout 120s -run 'Demo|demo' $PKG > /tmp/cs.without 2>&1; echo "rc=$?"; tail -3 /tmp/cs.without; git stash pop -q
mv "$DEMO" /tmp/cs.demo.go
echo "== suite WITH change"
for i in 1 2 3 4; do go test -mod=readonly -vet=off -count=1 ./... > /tmp/cs.suite 2>&1; rc=$?; [ $rc -eq 0 ] && break; echo "retry (flaky TestServer?)"; done
echo "rc=$rc"; grep -E "^(ok|FAIL|---)" /tmp/cs.suite | head -12
mv /tmp/cs.demo.go "$DEMO"
