#!/bin/bash
# usage: tools/stability.sh "<ids>" "<seeds>"   - runs each check under several solver seeds and lists every obligation that failed
ids=${1:-"C01 C02 C03 C04 C05 C06 C07 C08 C09 C10 C11 C12 C13 C17 C19 C20"}
seeds=${2:-"1 2 3 4 5"}
cd "$(dirname "$0")/.."
for id in $ids; do
  for s in $seeds; do
    VERIF_SEED=$s VERIF_OUT=/var/tmp/verif-stab.$$ ./check $id quick > /var/tmp/verif-stab.$$.log 2>&1
    rc=$?
    n=$(grep -c '^VIOLATION' /var/tmp/verif-stab.$$.log)
    echo "$id seed=$s rc=$rc violations=$n $(tail -1 /var/tmp/verif-stab.$$.log | sed 's/.*units, //')"
    grep '^VIOLATION' /var/tmp/verif-stab.$$.log | sed 's/.*obligation=/    /' | cut -c1-260
  done
done
rm -rf /var/tmp/verif-stab.$$ /var/tmp/verif-stab.$$.log
