#!/bin/bash
# usage: tools/with_patch.sh [-R] <patch> <command...>
# Applies a patch to /repo temporarily, runs the command, and undoes it. Refuses to run when /repo has uncommitted
# changes (git checkout -- . would destroy them).
rev=""
if [ "$1" = "-R" ]; then rev="-R"; shift; fi
patch=$1; shift
if [ -n "$(git -C /repo status --porcelain)" ]; then
  echo "with_patch: /repo has uncommitted changes; commit them first" >&2; exit 3
fi
git -C /repo apply $rev "$patch" || exit 3
"$@"; rc=$?
git -C /repo checkout -- . ; git -C /repo clean -fdq -e 'contracts_*verif.go'
exit $rc
