#!/usr/bin/env python3
"""Regenerates /verif/MANIFEST.json from the table below (kept in one place so it stays valid)."""
import json, subprocess, os
HERE = os.path.dirname(os.path.dirname(os.path.abspath(__file__)))

CLAIMED = {
 # id: (level text, level_note, technique, design_ref)
 "C06": ("Every obligation generated from the real SSA of redis/proto's parser (nil/bounds/alloc/div panics, the postcondition 'value | clean end of stream | error', 'no nil element in a returned array', loop invariants, termination measures of every loop and of the Next/nextArrayMessage/newArrayWithParser recursion, allocation bounds) is discharged by SMT for all byte streams, all declared lengths (full int64 range) and all read-size sequences; no bound.",
         "Trusted: go/ssa lowering and the engine's SSA->SMT translation; solver soundness; assumed io.Reader contract (progress, no data together with an error), strconv.Atoi total; slices <= 2^40 elements, stream <= 2^44 bytes. Nested arrays: the no-nil-element clause is proved for each Next result at its return (objects returned by the parser are never written again by parser code); the hereditary statement is that argument, not a separate obligation.",
         "weakest-precondition VCs over go/ssa of the real functions + contracts in //@ comments, discharged by z3/cvc5", "DESIGN.md §9 C06"),
}

NOT_APPLICABLE = {
 "C14": "data-race freedom quantifies over thread interleavings; a sequential contract verifier has no second thread (DESIGN §9 C14)",
 "C15": "Start/Stop/Restart under all schedules of exiting accept loops is a concurrency property; only the sequential release obligations are claimed under C19 (DESIGN §9 C15)",
 "C16": "linearizability of concurrent histories cannot be expressed as pre/postconditions of one call; the code has no command-level lock whose discipline could be verified (DESIGN §9 C16)",
}
PENDING = "contracts for this property are not yet discharged on the unchanged tree in this revision of /verif; not claimed until they are (work in progress, see DESIGN.md §0)"
ALL = ["C%02d" % i for i in range(1, 21)]

def main():
    hooks = subprocess.run(["git", "-C", "/repo", "log", "--format=%H %s"], capture_output=True, text=True).stdout.splitlines()
    hook_commits = [l.split()[0] for l in hooks if " verif:" in " " + l.split(" ", 1)[1][:7] or l.split(" ", 1)[1].startswith("verif:")]
    checks = []
    for pid in ALL:
        if pid not in CLAIMED:
            continue
        text, note, tech, ref = CLAIMED[pid]
        checks.append({
            "property_id": pid,
            "quick_cmd": "./check %s quick" % pid,
            "thorough_cmd": "./check %s thorough" % pid,
            "evidence_file": "/verif/evidence/%s.json" % pid,
            "replay_cmd_template": "./check --replay {path}",
            "engine": "govc",
            "level_claimed": {"category": "proof", "text": text, "design_ref": ref},
            "level_note": note,
            "technique": tech,
        })
    na = []
    for pid in ALL:
        if pid in CLAIMED:
            continue
        na.append({"property_id": pid, "reason": NOT_APPLICABLE.get(pid, PENDING)})
    m = {
        "version": 1,
        "setup_cmd": "cd /verif/engine && GOFLAGS=-mod=mod GOPROXY=off GOSUMDB=off GOTOOLCHAIN=local go build -o ../bin/govc ./cmd/govc",
        "hooks": {
            "guard": "verif",
            "enable": "go build tag 'verif' (-tags verif): enables only comment-only contract files /repo/**/contracts_verif.go; no executable hook exists",
            "baseline_off_cmd": "cd /repo && GOFLAGS= GOPROXY=off GOSUMDB=off GOTOOLCHAIN=local go test -mod=readonly -json -vet=off -count=1 -timeout 25m ./...",
            "source_commits": hook_commits,
            "add_only": True,
        },
        "engines": [{"name": "govc", "path": "/verif/engine", "serves_properties": sorted(CLAIMED),
                     "kind_free_text": "own VC generator over go/ssa (x/tools v0.29.0) + contract language in //@ comments; obligations discharged by z3 5.1.0, z3 4.8.12, cvc5 1.0.3"}],
        "checks": checks,
        "not_applicable": na,
        "notes": "Contract-based deductive verification of the real code; see DESIGN.md. known_findings.txt lists recorded defects and fix: commits.",
    }
    json.dump(m, open(os.path.join(HERE, "MANIFEST.json"), "w"), indent=1)
    print("claimed:", sorted(CLAIMED), "hooks:", len(hook_commits))

if __name__ == "__main__":
    main()
