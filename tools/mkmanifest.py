#!/usr/bin/env python3
"""Regenerates /verif/MANIFEST.json from the table below (kept in one place so it stays valid)."""
import json, subprocess, os
HERE = os.path.dirname(os.path.dirname(os.path.abspath(__file__)))

TECH = 'weakest-precondition VCs over go/ssa of the real functions + contracts in //@ comments, discharged by z3/cvc5'
TRUST = "Trusted: go/ssa lowering and the engine's SSA->SMT translation; solver soundness; the assumed contracts of external/interface functions listed in the evidence (io.Reader/net.Conn, bytes.Buffer, strconv, errors/fmt, go-tracing, handler interfaces). Sequential semantics only."
CLAIMED = {
 "C01": ("Frame level, for all payload bytes and lengths: RESPBytes is proved to emit exactly the canonical encoding predicates encLine / encBulk / encNull (type byte, payload copied byte for byte - every byte value, CR, LF, NUL and type characters included for bulk payloads - decimal length prefix equal to the payload length, CRLF terminators) and '*' count CRLF for arrays; Parser.Next is proved to return, for the bytes actually in the stream (ghost S_in, first-CR function S_cr), a message whose type is the type byte, whose line text / bulk payload equals the stream bytes, whose bulk length is atoi of the header line, and whose array has atoi(header) elements occupying contiguous extents (ghost D_lo/D_hi: element k+1 starts where element k ended, the array ends where its last element ends). Round-trip lemmas (clients of Next verified against its contract only): if the stream holds encLine/encBulk/encNull of m then Next returns a message of the same type with string(bytes) equal and consumes exactly the encoding; two values in sequence are returned in order with nothing swallowed or left. Constructors: NewIntegerMessage(v).Integer() == v, NewStringMessage/NewBulkMessage(s).String() == s, NewOKMessage, NewNilMessage().IsNil(), NewFloatMessage(v) parses back to v for finite v, NewStringArrayMessage(strs) yields strs[k] at position k.",
         TRUST + " Nesting: the statement for whole trees is the induction over nesting depth whose step is the discharged one-level obligation (every element of an array is itself a value returned by Next under the same contract and is never written afterwards - frame obligations); the induction itself is not an obligation. Array.RESPBytes: header, non-nil elements and framing are proved, 'the body is the in-order concatenation of the elements' encodings' is NOT (no ghost names the callee's outputs). Line payloads with CR/LF are replaced by spaces on output (C04), so the line round trip requires noCRLF. ASSUMED: strconv (atoi(itoa(v)) == v, itoa digits, FormatFloat/ParseFloat shortest round trip), bytes.Buffer.", TECH, "DESIGN.md §16.7"),
 "C02": ("Every parser contract is stated over the ghost stream (S_in, S_pos, S_end) and the reader contract leaves the size of each Read unconstrained in 1..len(p): the discharged obligations therefore hold for every chunking, down to single bytes and splits inside length prefixes, between CR and LF and inside payloads. Proved: each value consumes exactly its own bytes (S_pos afterwards is afterLine / payload end / end of the last element; extents of consecutive array elements are contiguous); completeness - a stream position that holds a line value, a null bulk, or a complete bulk (length prefix, payload, CRLF all delivered) makes Next succeed, an array succeeds unless its header is malformed/too large or a nested Next fails (ghost failure counter), and at end of stream Next reports (nil, nil); two encoded values in sequence are returned in order (lemma client); receive feeds handleMessage exactly the values Next returns.",
         TRUST + " The transport is modelled as a reader that returns 1..len(p) bytes or io.EOF at the end of the stream; readers that return (0, nil) or transient errors are outside the model. Whole-tree statement by the same induction as C01.", TECH, "DESIGN.md §16.7"),
 "C03": ("receive is proved to keep 'replies == requests' (ghost counters: frames written by responseMessage vs. values returned by the parser) at the loop head - the only place it reads from the transport - and at every return (QUIT, end of stream, parser error); responseMessage writes exactly one frame on every path; every loop of every executor and argument reader has a discharged termination measure (the ZADD option loop included); all for arbitrary requests, chunkings and handler results.",
         TRUST + " Not decided: a client that stops reading (blocking Write) and TCP back-pressure.", TECH, "DESIGN.md §9 C03"),
 "C04": ("The only Write to the client is in responseMessage and its argument is proved to be the RESPBytes output of a non-nil message (also for nil replies and for replies that cannot be serialized); RESPBytes is proved to produce a type byte, no CR/LF inside simple-string/error/integer text for ANY payload bytes, and a CRLF terminator; bulk frames carry decimal(len) CRLF payload CRLF with the payload copied byte for byte; array frames start with '*' decimal(count) CRLF and end with a CRLF.",
         TRUST + " The full recursive grammar of nested array frames is not a single obligation: each element is appended as the proved RESPBytes output of that element.", TECH, "DESIGN.md §9 C04"),
 "C05": ("Per-command postconditions written from an independent grammar of the command surface: for 28 commands generated from a table (GET TYPE TTL KEYS HGETALL LLEN SMEMBERS RENAME RENAMENX HGET HSET HSETNX LINDEX LRANGE ZSCORE SETNX GETSET SETEX DEL EXISTS HDEL SADD SREM ZREM LPUSH LPUSHX RPUSH RPUSHX) and for LPOP RPOP ZINCRBY EXPIRE EXPIREAT SET SCAN MGET written by hand, the ghost handler-call log is proved to gain exactly one entry whose method, connection and every argument equal the decoded request elements (strings byte for byte via string(bytes), integers via the Atoi spec function, lists element by element in order, option flags), and the executor returns the handler's message and error unchanged; dispatch looks up upper(cmd) and an unknown command yields an error reply with no handler call; the typed argument readers are proved against element-level specifications.",
         TRUST + " Not every option grammar is specified: SET's NX/XX/EX/PX tokens, ZADD/ZRANGE*/SCAN option words, MSET/HMSET key/value maps (last value wins) and EXPIRE's time arithmetic are covered only up to the clauses listed in the contract files; strconv and strings.ToUpper are assumed (spec functions atoi, parseF, toUpper).", TECH, "DESIGN.md §9 C05"),
 "C06": ("Every obligation generated from the real SSA of redis/proto's parser (nil/bounds/alloc/div panics, the postcondition 'value | clean end of stream | error', 'no nil element in a returned array', loop invariants, termination measures of every loop and of the Next/nextArrayMessage/newArrayWithParser recursion, allocation bounds) is discharged by SMT for all byte streams, all declared lengths (full int64 range) and all read-size sequences; no bound.",
         TRUST + " Nested arrays: the no-nil-element clause is proved for each Next result at its return; the hereditary statement is that argument, not a separate obligation.", TECH, "DESIGN.md §9 C06"),
 "C07": ("Zero-annotation safety sweep (nil dereference, index/slice bounds, allocation size, division, type assertion, nil-map write, explicit panic) plus contract obligations over every function on the request path of package redis, redis/proto and redis/glob - the connection loop, dispatch, all 67 registered executors, all argument readers, constructors and serializers - for arbitrary client bytes and arbitrary handler results (nil messages, arrays with nil elements, array messages without array included); every obligation discharged.",
         TRUST + " Not decided: that other connections keep receiving exact replies (a corollary of no-panic plus per-connection state, not explored), disconnect timing, the bundled example store as handler (claimed separately when its contracts discharge).", TECH, "DESIGN.md §9 C07"),
 "C08": ("Gate: the dynamic call of an executor in executeCommand is reachable only under 'conn.authrized || upper(cmd) == AUTH' (a precondition of the generic executor contract checked at the call site); new connections start unauthorized; every executor, handleMessage and receive preserve 'authrized gained ==> an AUTH succeeded' (ghost authed), receive keeps 'authrized ==> !passwordRequired || authed'; Auth sets the flag only after Authenticate returned true, leaves it unchanged on error, and stores the presented password as present even when empty.",
         TRUST + " Assumed: the authenticator chain installed at Start compares the presented password with the configured one (auth package contracts pending); interleavings of several connections are covered by the frame (only the issuing Conn is written), not explored.", TECH, "DESIGN.md §9 C08"),
 "C09": ("Decided clauses: NewTLSConfigFrom returns a config with ClientAuth == RequireAndVerifyClientCert, ClientCAs set and MinVersion >= TLS1.2; CertificateAuthenticator accepts only if the FIRST (leaf) peer certificate carries the configured common name; receive enters its command loop for a TLS connection only if no authenticator refused (entry assertion) and otherwise returns with the socket closed before any parse; the accept loops (serve, tlsServe) return an error only when Accept failed and keep 'every accepted socket is closed or handed to a connection goroutine' (ghost pending == 0) across a failed handshake.",
         TRUST + " Trusted: crypto/tls enforces the configuration and reports the verified chain leaf-first. NOT decided: a stalled or abandoned handshake blocking the accept loop (time/concurrency), and that both listeners keep serving beyond the loop-exit obligation.", TECH, "DESIGN.md §9 C09"),
 "C10": ("For the same commands as C05 the negation of the argument shape (a required position missing, null, of a non-string type, or a non-numeric/out-of-range token where a number is required) is proved to imply 'error returned and the handler-call log unchanged'; list commands never call the handler after an error; key/value lists with a dangling key are rejected (nextStringMapArguments), SET never reaches the handler with NX and XX together or a negative expiry, SETEX/EXPIRE reject expiries that do not fit a Duration, ZADD rejects a missing member or a trailing score.",
         TRUST + " SET's token-level exclusivity (which tokens were sent) is proved only at the level of the options handed to the handler; unknown option words are ignored by ZRANGE/SCAN (not an error in go-redis) and are not claimed.", TECH, "DESIGN.md §9 C10"),
 "C11": ("Parser functions are proved against a ghost stream with an arbitrary end position S_end: a bulk body is returned only if all num+2 bytes were delivered, an array only if every element was (end of stream inside an array is an error), so a request cut at any byte offset is never returned as a value; receive calls handleMessage only with a value Next returned without error, and at every exit the socket is closed and the registry no larger than on entry.",
         TRUST + " Line-type values at end of stream without CRLF are accepted by the parser (the existing tests require it); valid client requests end with a bulk body, for which completeness is proved.", TECH, "DESIGN.md §9 C11"),
 "C12": ("GETRANGE/SUBSTR: the reply is proved equal to value[lo:hi] with (lo,hi) given by spec functions of Redis' clamping rule for every length and every int64 start/end; INCR/DECR/INCRBY/DECRBY: exactly Get then Set(key, itoa(cur+delta)) and reply :new, error and no Set for non-integers and for int64 overflow (no_overflow obligation on cur+delta and on the negation); APPEND: Set(key, old++arg) and reply the new length; STRLEN/HSTRLEN/HEXISTS/HLEN replies as functions of the primitive's result; MGET: one Get per key in request order and reply[k] == k-th result; PING/ECHO; CONFIG GET returns 2 entries per requested key; ReverseBy terminates, stays in bounds and returns a fresh array of the same length under its (step, length) precondition, which both call sites establish.",
         TRUST + " Not proved functionally: the pairing of HKEYS/HVALS, the counts of SCARD/ZCARD/SISMEMBER, the permutation computed by ReverseBy (ZREVRANGE element order), MSET/MSETNX/HMSET over Go map iteration, CONFIG SET contents. Primitive handler operations are assumed to behave like Redis.", TECH, "DESIGN.md §9 C12"),
 "C13": ("Frame obligations: every executor, executeCommand and handleMessage are proved to write no Conn field except id/authrized/username/password/hasPassword of the conn parameter (and argument cursors, string maps, ghost logs); newConnWith returns a fresh object with id 0, unauthorized, empty credentials; Database/SetDatabase/Select read and write exactly the receiver's field.",
         TRUST + " Concurrency: other connections run the same code on their own Conn object; that no other goroutine writes this Conn is an ownership argument from these frames, not an explored interleaving.", TECH, "DESIGN.md §9 C13"),
 "C17": ("regexpFromGlob is proved, for every pattern (all byte values, any length; loop invariant over the strings.Builder ghost buffer), to return exactly \"(?s)^\" ++ T(p[0]) ++ ... ++ T(p[n-1]) ++ \"$\" where T('*') = \".*\", T('?') = \".\", T(c) = backslash c for the twelve regular-expression metacharacters and T(c) = c otherwise (byte-level specification gOff/tr0/tr1 written independently of the code); Compile/MustCompile pass exactly that string to regexp.Compile and never fail or panic on ASCII patterns; nextScanArgument is proved to return a matcher produced by glob.Compile/MustCompile (ghost provenance is_glob/glob_of), equal to the glob of the MATCH argument for 'SCAN c MATCH p' and to \"*\" without options, and the SCAN executor hands that matcher to the handler; the example store's KEYS and SCAN return only keys k with globMatch(pattern, k) and KEYS compiles with glob.Compile, so both select with the same matcher for the same pattern.",
         TRUST + " ASSUMED (regexp package, not verified): a translation of an ASCII glob is a valid RE2 expression, and the compiled matcher decides Redis glob matching (spec function globMatch). Patterns with invalid UTF-8 are rejected by regexp.Compile (KEYS then returns an error; outside the property's alphabet). Completeness of KEYS/SCAN (every matching key is returned) is not proved: sync.Map.Range with a closure is outside the contract language.", TECH, "DESIGN.md §9 C17"),
 "C19": ("receive is proved to leave the socket closed (ghost sock_closed set by net.Conn.Close) and the registry domain no larger than on entry at every return: certificate rejection, parser error, end of stream, QUIT; Close is idempotent; AddConn/RemoveConn add and remove exactly the connection's uuid.",
         TRUST + " Not decided: a client that stops reading, RST timing, goroutine/descriptor counts under churn, ConnManager.Close/Stop and the accept loops (pending).", TECH, "DESIGN.md §9 C19"),
 "C20": ("Ghost span stack: the root span is started only when none is open and finished exactly once with no child open on every path of the connection loop; executeCommand and every executor restore the child depth (defer FinishSpan pairs with StartSpan on all paths, composed commands re-enter executeCommand under the same contract).",
         TRUST + " Assumed: go-tracing contexts behave as a span stack (contract in external.contracts).", TECH, "DESIGN.md §9 C20"),
}

NOT_APPLICABLE = {
 "C14": "data-race freedom quantifies over thread interleavings; a sequential contract verifier has no second thread (DESIGN §9 C14)",
 "C15": "Start/Stop/Restart under all schedules of exiting accept loops is a concurrency property; only the sequential release obligations are claimed under C19 (DESIGN §9 C15)",
 "C16": "linearizability of concurrent histories cannot be expressed as pre/postconditions of one call; the code has no command-level lock whose discipline could be verified (DESIGN §9 C16)",
}
PENDING = "contracts for this property are not yet discharged on the unchanged tree in this revision of /verif; not claimed until they are (work in progress, see DESIGN.md §0)"
ALL = ["C%02d" % i for i in range(1, 21)]

def main():
    hooks = subprocess.run(["git", "-C", "/repo", "log", "--format=%H %s"], capture_output=True, text=True).stdout.splitlines()
    hook_commits = [l.split()[0] for l in hooks if " verif:" in " " + l.split(" ", 1)[1][:7] or l.split(" ", 1)[1].startswith("verif:")]
    checks = []
    for pid in ALL:
        if pid not in CLAIMED:
            continue
        text, note, tech, ref = CLAIMED[pid]
        checks.append({
            "property_id": pid,
            "quick_cmd": "./check %s quick" % pid,
            "thorough_cmd": "./check %s thorough" % pid,
            "evidence_file": "/verif/evidence/%s.json" % pid,
            "replay_cmd_template": "./check --replay {path}",
            "engine": "govc",
            "level_claimed": {"category": "proof", "text": text, "design_ref": ref},
            "level_note": note,
            "technique": tech,
        })
    na = []
    for pid in ALL:
        if pid in CLAIMED:
            continue
        na.append({"property_id": pid, "reason": NOT_APPLICABLE.get(pid, PENDING)})
    m = {
        "version": 1,
        "setup_cmd": "cd /verif/engine && GOFLAGS=-mod=mod GOPROXY=off GOSUMDB=off GOTOOLCHAIN=local go build -o ../bin/govc ./cmd/govc",
        "hooks": {
            "guard": "verif",
            "enable": "go build tag 'verif' (-tags verif): enables the comment-only contract files /repo/**/contracts*_verif.go and the lemma clients /repo/redis/proto/lemmas_verif.go, /repo/redis/lemmas_verif.go (small functions that are never called; they exist so that round-trip lemmas are checked against the contracts of the real functions). Nothing is instrumented.",
            "baseline_off_cmd": "cd /repo && GOFLAGS= GOPROXY=off GOSUMDB=off GOTOOLCHAIN=local go test -mod=readonly -json -vet=off -count=1 -timeout 25m ./...",
            "source_commits": hook_commits,
            "add_only": True,
        },
        "engines": [{"name": "govc", "path": "/verif/engine", "serves_properties": sorted(CLAIMED),
                     "kind_free_text": "own VC generator over go/ssa (x/tools v0.29.0) + contract language in //@ comments; obligations discharged by z3 5.1.0, z3 4.8.12, cvc5 1.0.3"}],
        "checks": checks,
        "not_applicable": na,
        "notes": "Contract-based deductive verification of the real code; see DESIGN.md. known_findings.txt lists recorded defects and fix: commits.",
    }
    json.dump(m, open(os.path.join(HERE, "MANIFEST.json"), "w"), indent=1)
    print("claimed:", sorted(CLAIMED), "hooks:", len(hook_commits))

if __name__ == "__main__":
    main()
