#!/bin/bash
# usage: tools/try_patch.sh <patch> <ids...> : runs the quick checks against a scratch worktree of /repo HEAD with the patch applied
patch=$1; shift
wt=/var/tmp/verif-try.$$
git -C /repo worktree add -f --detach $wt HEAD -q || exit 2
trap 'git -C /repo worktree remove --force $wt >/dev/null 2>&1; rm -rf $wt.out' EXIT
git -C $wt apply "$patch" || { echo "patch does not apply"; exit 3; }
for id in "$@"; do
  VERIF_REPO=$wt VERIF_OUT=$wt.out /verif/check $id quick > $wt.log 2>&1; rc=$?
  echo "== $id rc=$rc $(tail -1 $wt.log)"
  grep '^VIOLATION' $wt.log | sed 's/.*obligation=/   /' | cut -c1-300 | head -${MAXV:-6}
  mkdir -p /verif/replays/$id; cp -r $wt.out/replays/$id/. /verif/replays/$id/ 2>/dev/null
done
rm -f $wt.log
