package engine

import (
	"fmt"
	"go/types"
	"sort"
	"strings"
)

// Sort is an SMT sort name.
type Sort string

const (
	SInt   Sort = "Int"
	SBool  Sort = "Bool"
	SRef   Sort = "Ref"
	SStr   Sort = "Str"
	SSlice Sort = "Slice"
	SIface Sort = "Iface"
	SFn    Sort = "Fn"
	SF64   Sort = "F64"
	SBox   Sort = "Box"
)

// Val is the engine's representation of a Go value.
type Val struct {
	T    string // SMT term (scalar sorts)
	S    Sort
	Ty   types.Type
	Flds []Val // flattened struct fields or tuple components
	Addr *Addr // transient address of a scalar field / element / cell
}

// Addr is the address of a non-struct location.
type Addr struct {
	Comp string // heap component name
	Ref  string // Ref term
	Idx  string // absolute element index for E components ("" otherwise)
	Ty   types.Type
}

func sx(op string, args ...string) string {
	switch op {
	case "s-arr", "s-off", "s-len", "s-cap":
		if len(args) == 1 && strings.HasPrefix(args[0], "(mk-slice ") {
			if p := splitSexp(args[0]); len(p) == 5 {
				return p[map[string]int{"s-arr": 1, "s-off": 2, "s-len": 3, "s-cap": 4}[op]]
			}
		}
	case "i-typ", "i-box":
		if len(args) == 1 && strings.HasPrefix(args[0], "(mk-iface ") {
			if p := splitSexp(args[0]); len(p) == 3 {
				return p[map[string]int{"i-typ": 1, "i-box": 2}[op]]
			}
		}
	case "+":
		var ys []string
		for _, a := range args {
			if a != "0" {
				ys = append(ys, a)
			}
		}
		switch len(ys) {
		case 0:
			return "0"
		case 1:
			return ys[0]
		}
		args = ys
	case "-":
		if len(args) == 2 && args[1] == "0" {
			return args[0]
		}
	}
	return "(" + op + " " + strings.Join(args, " ") + ")"
}
func and(xs ...string) string {
	var ys []string
	for _, x := range xs {
		if x == "true" || x == "" {
			continue
		}
		if x == "false" {
			return "false"
		}
		ys = append(ys, x)
	}
	switch len(ys) {
	case 0:
		return "true"
	case 1:
		return ys[0]
	}
	return sx("and", ys...)
}
func or(xs ...string) string {
	var ys []string
	for _, x := range xs {
		if x == "false" || x == "" {
			continue
		}
		if x == "true" {
			return "true"
		}
		ys = append(ys, x)
	}
	switch len(ys) {
	case 0:
		return "false"
	case 1:
		return ys[0]
	}
	return sx("or", ys...)
}
func not(x string) string {
	switch x {
	case "true":
		return "false"
	case "false":
		return "true"
	}
	return sx("not", x)
}
func imp(a, b string) string {
	if a == "true" {
		return b
	}
	if b == "true" || a == "false" {
		return "true"
	}
	return sx("=>", a, b)
}
func eq(a, b string) string { return sx("=", a, b) }
func ite(c, a, b string) string {
	if c == "true" {
		return a
	}
	if c == "false" {
		return b
	}
	if a == b {
		return a
	}
	return sx("ite", c, a, b)
}
func sel(a, i string) string {
	// select-over-store with a syntactically identical index
	if strings.HasPrefix(a, "(store ") {
		if parts := splitSexp(a); len(parts) == 4 && parts[2] == i {
			return parts[3]
		}
	}
	return sx("select", a, i)
}

// splitSexp splits "(f a b c)" into [f a b c] at the top level.
func splitSexp(s string) []string {
	if len(s) < 2 || s[0] != '(' || s[len(s)-1] != ')' {
		return nil
	}
	s = s[1 : len(s)-1]
	var out []string
	d, start, inq := 0, 0, false
	for i := 0; i <= len(s); i++ {
		if i == len(s) {
			if start < i {
				out = append(out, s[start:i])
			}
			break
		}
		c := s[i]
		switch {
		case c == '|':
			inq = !inq
		case inq:
		case c == '(':
			d++
		case c == ')':
			d--
		case c == ' ' && d == 0:
			if start < i {
				out = append(out, s[start:i])
			}
			start = i + 1
		}
	}
	return out
}
func store(a, i, v string) string { return sx("store", a, i, v) }
func num(n int64) string {
	if n < 0 {
		return fmt.Sprintf("(- %d)", -n)
	}
	return fmt.Sprintf("%d", n)
}
func numStr(s string) string {
	if strings.HasPrefix(s, "-") {
		return "(- " + s[1:] + ")"
	}
	return s
}
func qsym(s string) string {
	s = strings.ReplaceAll(s, "|", "!")
	s = strings.ReplaceAll(s, "\\", "!")
	return "|" + s + "|"
}

const (
	minI64 = "(- 9223372036854775808)"
	maxI64 = "9223372036854775807"
	two64  = "18446744073709551616"
	// maxLen bounds the length of every slice/string that exists in memory (assumption A3: 2^40 elements).
	maxLen = "1099511627776" // 2^40
)

// Prelude is the fixed sort/function environment of every VC.
const Prelude = `
(declare-sort Ref 0)
(declare-const null Ref)
(declare-sort Str 0)
(declare-fun slen (Str) Int)
(declare-fun sat (Str Int) Int)
(declare-sort Box 0)
(declare-sort Fn 0)
(declare-const fn.nil Fn)
; float64 is an abstract sort: comparisons are uninterpreted relations constrained by axioms that hold for IEEE 754 (every IEEE
; model is a model of them, so what is proved here holds for the real type); arithmetic and conversions are uninterpreted.
(declare-sort F64 0)
(declare-fun f.lt (F64 F64) Bool)
(declare-fun f.eq (F64 F64) Bool)
(declare-fun f.isNaN (F64) Bool)
(declare-fun f.isInf (F64) Bool)
(define-fun f.leq ((a F64) (b F64)) Bool (or (f.lt a b) (f.eq a b)))
(define-fun f.gt ((a F64) (b F64)) Bool (f.lt b a))
(define-fun f.geq ((a F64) (b F64)) Bool (or (f.lt b a) (f.eq b a)))
(declare-const f.zero F64)
(declare-fun f.lit (Int) F64)
(declare-fun f.neg (F64) F64)
(declare-fun f.add (F64 F64) F64)
(declare-fun f.sub (F64 F64) F64)
(declare-fun f.mul (F64 F64) F64)
(declare-fun f.div (F64 F64) F64)
(declare-fun f.ofint (Int) F64)
(assert (not (f.isNaN f.zero)))
(assert (forall ((n Int)) (! (and (not (f.isNaN (f.lit n))) (not (f.isInf (f.lit n)))) :pattern ((f.lit n)))))
(assert (forall ((a F64) (b F64)) (! (=> (f.lt a b) (and (not (f.isNaN a)) (not (f.isNaN b)) (not (f.lt b a)) (not (f.eq a b)))) :pattern ((f.lt a b)))))
(assert (forall ((a F64) (b F64)) (! (=> (f.eq a b) (and (not (f.isNaN a)) (not (f.isNaN b)) (f.eq b a))) :pattern ((f.eq a b)))))
(assert (forall ((a F64)) (! (= (f.eq a a) (not (f.isNaN a))) :pattern ((f.eq a a)) :pattern ((f.isNaN a)))))
(assert (forall ((a F64) (b F64)) (! (=> (and (not (f.isNaN a)) (not (f.isNaN b))) (or (f.lt a b) (f.eq a b) (f.lt b a))) :pattern ((f.lt a b)) :pattern ((f.eq a b)))))
(assert (forall ((a F64) (b F64) (c F64)) (! (=> (and (f.lt a b) (f.lt b c)) (f.lt a c)) :pattern ((f.lt a b) (f.lt b c)))))
(assert (forall ((a F64) (b F64) (c F64)) (! (=> (and (f.lt a b) (f.eq b c)) (f.lt a c)) :pattern ((f.lt a b) (f.eq b c)))))
(assert (forall ((a F64) (b F64) (c F64)) (! (=> (and (f.eq a b) (f.lt b c)) (f.lt a c)) :pattern ((f.eq a b) (f.lt b c)))))
(assert (forall ((a F64) (b F64) (c F64)) (! (=> (and (f.eq a b) (f.eq b c)) (f.eq a c)) :pattern ((f.eq a b) (f.eq b c)))))
(assert (forall ((a F64)) (! (=> (f.isInf a) (not (f.isNaN a))) :pattern ((f.isInf a)))))
(declare-datatypes ((Slice 0)) (((mk-slice (s-arr Ref) (s-off Int) (s-len Int) (s-cap Int)))))
(declare-datatypes ((Iface 0)) (((mk-iface (i-typ Int) (i-box Box)))))
(declare-const box.nil Box)
(define-fun iface.nil () Iface (mk-iface 0 box.nil))
(define-fun slice.nil () Slice (mk-slice null 0 0 0))
(declare-const str.empty Str)
; the byte-wise order of Go strings as an abstract strict total order (its definition by bytes is not modelled)
(declare-fun str.lt (Str Str) Bool)
(assert (forall ((a Str) (b Str)) (! (=> (str.lt a b) (and (not (str.lt b a)) (not (= a b)))) :pattern ((str.lt a b)))))
(assert (forall ((a Str) (b Str)) (! (or (str.lt a b) (= a b) (str.lt b a)) :pattern ((str.lt a b)))))
(assert (forall ((a Str) (b Str) (c Str)) (! (=> (and (str.lt a b) (str.lt b c)) (str.lt a c)) :pattern ((str.lt a b) (str.lt b c)))))
(assert (= (slen str.empty) 0))
(assert (forall ((s Str)) (! (<= 0 (slen s)) :pattern ((slen s)))))
(assert (forall ((s Str)) (! (=> (= (slen s) 0) (= s str.empty)) :pattern ((slen s)))))
(define-fun wrap64 ((x Int)) Int (ite (> x 9223372036854775807) (- x 18446744073709551616) (ite (< x (- 9223372036854775808)) (+ x 18446744073709551616) x)))
(define-fun in64 ((x Int)) Bool (and (<= (- 9223372036854775808) x) (<= x 9223372036854775807)))
(define-fun wfslice ((s Slice)) Bool (and (<= 0 (s-off s)) (<= 0 (s-len s)) (<= (s-len s) (s-cap s)) (<= (+ (s-off s) (s-cap s)) 1099511627776) (=> (= (s-arr s) null) (= (s-cap s) 0))))
(declare-fun str.concat (Str Str) Str)
(assert (forall ((a Str) (b Str)) (! (= (slen (str.concat a b)) (+ (slen a) (slen b))) :pattern ((str.concat a b)))))
(assert (forall ((a Str) (b Str) (i Int)) (! (=> (and (<= 0 i) (< i (+ (slen a) (slen b)))) (= (sat (str.concat a b) i) (ite (< i (slen a)) (sat a i) (sat b (- i (slen a)))))) :pattern ((sat (str.concat a b) i)))))
(declare-fun str.sub (Str Int Int) Str)
(assert (forall ((a Str) (l Int) (h Int)) (! (=> (and (<= 0 l) (<= l h)) (= (slen (str.sub a l h)) (- h l))) :pattern ((str.sub a l h)))))
(assert (forall ((a Str) (l Int) (h Int) (i Int)) (! (=> (and (<= 0 i) (< i (- h l))) (= (sat (str.sub a l h) i) (sat a (+ l i)))) :pattern ((sat (str.sub a l h) i)))))
(assert (forall ((a Str) (h Int)) (! (=> (= h (slen a)) (= (str.sub a 0 h) a)) :pattern ((str.sub a 0 h)))))
(declare-fun str.ofbytes ((Array Int Int) Int Int) Str)
(assert (forall ((a (Array Int Int)) (o Int) (n Int)) (! (=> (<= 0 n) (= (slen (str.ofbytes a o n)) n)) :pattern ((str.ofbytes a o n)))))
(assert (forall ((a (Array Int Int)) (o Int) (n Int) (i Int)) (! (=> (and (<= 0 i) (< i n)) (= (sat (str.ofbytes a o n) i) (select a (+ o i)))) :pattern ((sat (str.ofbytes a o n) i)))))
(declare-fun maplen ((Array Str Bool)) Int)
`

// smtScript accumulates declarations and assertions of one verification unit.
type smtScript struct {
	decls    []string
	asserts  []string
	declared map[string]bool
	instTerms []string // extra ground terms offered to the goal-directed instantiation
	witTerms  []string // index terms named by witness(...) hints: candidate witnesses for existential goals
	boxes    map[Sort]bool
	lits     map[string]string // string literal -> const name
	opaque   map[Sort]bool
	fresh    int
	sorts    map[string]string
}

// isIntTerm is a syntactic check that a term has sort Int.
func (s *smtScript) isIntTerm(t string) bool {
	if t == "" {
		return false
	}
	if t[0] >= '0' && t[0] <= '9' {
		return true
	}
	if t[0] != '(' {
		return s.sorts[t] == "Int" || (strings.HasPrefix(t, "|sk!") && strings.Contains(t, "!Int!"))
	}
	for _, p := range []string{"(+ ", "(- ", "(* ", "(s-len ", "(s-off ", "(s-cap ", "(slen ", "(wrap64 ", "(div ", "(mod "} {
		if strings.HasPrefix(t, p) {
			return true
		}
	}
	return false
}

func newScript() *smtScript {
	return &smtScript{declared: map[string]bool{}, boxes: map[Sort]bool{}, lits: map[string]string{}, opaque: map[Sort]bool{}}
}

// ensureSorts declares every opaque sort mentioned in a sort expression.
func (s *smtScript) ensureSorts(sort string) {
	for i := 0; i < len(sort); i++ {
		if strings.HasPrefix(sort[i:], "|O:") {
			j := strings.Index(sort[i+1:], "|")
			if j < 0 {
				return
			}
			name := sort[i+3 : i+1+j]
			s.opaqueSort(name)
			i += j + 1
		}
	}
}

func (s *smtScript) declare(name string, sort string) {
	if s.declared[name] {
		return
	}
	s.ensureSorts(sort)
	s.declared[name] = true
	if s.sorts == nil {
		s.sorts = map[string]string{}
	}
	s.sorts[name] = sort
	s.decls = append(s.decls, fmt.Sprintf("(declare-const %s %s)", name, sort))
}
func (s *smtScript) declareFun(name string, args []string, ret string) {
	if s.declared[name] {
		return
	}
	s.ensureSorts(ret)
	for _, a := range args {
		s.ensureSorts(a)
	}
	s.declared[name] = true
	s.decls = append(s.decls, fmt.Sprintf("(declare-fun %s (%s) %s)", name, strings.Join(args, " "), ret))
}
func (s *smtScript) assert(f string) {
	if f == "true" {
		return
	}
	if strings.Contains(f, "(exists ") {
		f = s.skolemizeHyp(f, true, nil)
	}
	s.asserts = append(s.asserts, f)
}

// skolemizeHyp replaces existential quantifiers in positive positions of a hypothesis by Skolem functions of the
// universally quantified variables in scope (equisatisfiable), so that the witnesses have names the goal-directed
// instantiation can use.
func (s *smtScript) skolemizeHyp(f string, pos bool, bound [][2]string) string {
	parts := splitSexp(f)
	if len(parts) == 0 {
		return f
	}
	rec := func(x string, p bool) string { return s.skolemizeHyp(x, p, bound) }
	switch parts[0] {
	case "and", "or":
		out := []string{parts[0]}
		for _, p := range parts[1:] {
			out = append(out, rec(p, pos))
		}
		return "(" + strings.Join(out, " ") + ")"
	case "not":
		if len(parts) == 2 {
			return "(not " + rec(parts[1], !pos) + ")"
		}
	case "=>":
		if len(parts) == 3 {
			return "(=> " + rec(parts[1], !pos) + " " + rec(parts[2], pos) + ")"
		}
	case "!":
		if len(parts) >= 2 {
			return "(! " + rec(parts[1], pos) + " " + strings.Join(parts[2:], " ") + ")"
		}
	case "forall", "exists":
		if len(parts) != 3 {
			return f
		}
		univ := (parts[0] == "forall") == pos // behaves as a universal quantifier of the hypothesis
		vars := splitSexp(parts[1])
		if univ {
			nb := append([][2]string{}, bound...)
			for _, v := range vars {
				vp := splitSexp(v)
				if len(vp) != 2 {
					return f
				}
				nb = append(nb, [2]string{vp[0], vp[1]})
			}
			return "(" + parts[0] + " " + parts[1] + " " + s.skolemizeHyp(parts[2], pos, nb) + ")"
		}
		// existential in effect: only a positive "exists" is skolemized (a negative "forall" is left alone)
		if parts[0] != "exists" {
			return f
		}
		body := parts[2]
		for _, v := range vars {
			vp := splitSexp(v)
			if len(vp) != 2 {
				return f
			}
			s.fresh++
			name := qsym(fmt.Sprintf("skf!%d!%s", s.fresh, strings.Trim(vp[0], "|")))
			var args, argSorts []string
			for _, b := range bound {
				args = append(args, b[0])
				argSorts = append(argSorts, b[1])
			}
			app := name
			if len(args) > 0 {
				s.declareFun(name, argSorts, vp[1])
				app = "(" + name + " " + strings.Join(args, " ") + ")"
			} else {
				s.declare(name, vp[1])
			}
			body = replaceSymbol(body, vp[0], app)
		}
		return s.skolemizeHyp(body, pos, bound)
	}
	return f
}
func (s *smtScript) freshName(hint string) string {
	s.fresh++
	return qsym(fmt.Sprintf("%s!%d", hint, s.fresh))
}
func (s *smtScript) opaqueSort(name string) Sort {
	so := Sort(qsym("O:" + name))
	if !s.opaque[so] {
		s.opaque[so] = true
		s.decls = append(s.decls, fmt.Sprintf("(declare-sort %s 0)", so))
		s.decls = append(s.decls, fmt.Sprintf("(declare-const %s %s)", zeroOpaque(so), so))
	}
	return so
}
func zeroOpaque(so Sort) string { return qsym("zero:" + strings.Trim(string(so), "|")) }

func (s *smtScript) box(so Sort) (string, string) {
	b, u := qsym("box:"+strings.Trim(string(so), "|")), qsym("unbox:"+strings.Trim(string(so), "|"))
	if !s.boxes[so] {
		s.boxes[so] = true
		s.decls = append(s.decls, fmt.Sprintf("(declare-fun %s (%s) Box)", b, so))
		s.decls = append(s.decls, fmt.Sprintf("(declare-fun %s (Box) %s)", u, so))
		s.decls = append(s.decls, fmt.Sprintf("(assert (forall ((x %s)) (! (= (%s (%s x)) x) :pattern ((%s x)))))", so, u, b, b))
	}
	return b, u
}

// strLit returns the constant denoting a string literal, with its length and characters axiomatised.
func (s *smtScript) strLit(v string) string {
	if v == "" {
		return "str.empty"
	}
	if n, ok := s.lits[v]; ok {
		return n
	}
	name := qsym(fmt.Sprintf("lit:%q", v))
	s.lits[v] = name
	s.decls = append(s.decls, fmt.Sprintf("(declare-const %s Str)", name))
	s.decls = append(s.decls, fmt.Sprintf("(assert (= (slen %s) %d))", name, len(v)))
	for i := 0; i < len(v) && len(v) <= 12; i++ {
		s.decls = append(s.decls, fmt.Sprintf("(assert (= (sat %s %d) %d))", name, i, v[i]))
	}
	return name
}

// litDistinct asserts pairwise distinctness of all string literals used (sound: they differ as Go strings).
func (s *smtScript) litDistinct() string {
	if len(s.lits) < 1 {
		return ""
	}
	var ns []string
	for _, n := range s.lits {
		ns = append(ns, n)
	}
	sort.Strings(ns)
	ns = append(ns, "str.empty")
	return "(assert (distinct " + strings.Join(ns, " ") + "))"
}

func (s *smtScript) text() string {
	var b strings.Builder
	b.WriteString(Prelude)
	for _, d := range s.decls {
		b.WriteString(d)
		b.WriteByte('\n')
	}
	if d := s.litDistinct(); d != "" {
		b.WriteString(d)
		b.WriteByte('\n')
	}
	for _, a := range s.asserts {
		b.WriteString("(assert ")
		b.WriteString(a)
		b.WriteString(")\n")
	}
	return b.String()
}

// skolemizeGoal replaces universally quantified variables in positive positions of a goal by fresh constants
// (validity-preserving); returns the new goal and the declarations of the constants.
func skolemizeGoal(goal string, counter *int) (string, []string) {
	goal = strings.TrimSpace(goal)
	parts := splitSexp(goal)
	if len(parts) == 0 {
		return goal, nil
	}
	switch parts[0] {
	case "forall":
		if len(parts) != 3 {
			return goal, nil
		}
		vars := splitSexp(parts[1])
		body := parts[2]
		// strip pattern annotation
		if bp := splitSexp(body); len(bp) >= 2 && bp[0] == "!" {
			body = bp[1]
		}
		var decls []string
		for _, v := range vars {
			vp := splitSexp(v)
			if len(vp) != 2 {
				return goal, nil
			}
			*counter++
			name := fmt.Sprintf("|sk!%d!%s!%s|", *counter, strings.Trim(vp[1], "|()"), strings.Trim(vp[0], "|"))
			decls = append(decls, fmt.Sprintf("(declare-const %s %s)", name, vp[1]))
			body = replaceSymbol(body, vp[0], name)
		}
		b2, d2 := skolemizeGoal(body, counter)
		return b2, append(decls, d2...)
	case "=>":
		if len(parts) != 3 {
			return goal, nil
		}
		c, d := skolemizeGoal(parts[2], counter)
		return "(=> " + parts[1] + " " + c + ")", d
	case "and", "or":
		var out []string
		var decls []string
		for _, p := range parts[1:] {
			c, d := skolemizeGoal(p, counter)
			out = append(out, c)
			decls = append(decls, d...)
		}
		return "(" + parts[0] + " " + strings.Join(out, " ") + ")", decls
	}
	return goal, nil
}

// expandGoalExists rewrites every positive (exists ((x Int)) B) of a goal into (or B[t1/x] ... B[tn/x] (exists ((x Int)) B))
// for the candidate terms (equivalent; it hands the solver the likely witnesses).
func expandGoalExists(goal string, terms []string) string {
	parts := splitSexp(strings.TrimSpace(goal))
	if len(parts) == 0 {
		return goal
	}
	switch parts[0] {
	case "exists":
		if len(parts) != 3 {
			return goal
		}
		vars := splitSexp(parts[1])
		if len(vars) != 1 {
			return goal
		}
		vp := splitSexp(vars[0])
		if len(vp) != 2 || vp[1] != "Int" {
			return goal
		}
		out := []string{"or"}
		for _, t := range terms {
			out = append(out, replaceSymbol(parts[2], vp[0], t))
		}
		out = append(out, goal)
		return "(" + strings.Join(out, " ") + ")"
	case "=>":
		if len(parts) == 3 {
			return "(=> " + parts[1] + " " + expandGoalExists(parts[2], terms) + ")"
		}
	case "and", "or":
		out := []string{parts[0]}
		for _, p := range parts[1:] {
			out = append(out, expandGoalExists(p, terms))
		}
		return "(" + strings.Join(out, " ") + ")"
	}
	return goal
}

// skolemApps collects the applications of hypothesis Skolem functions (|skf!...|) occurring in s.
func skolemApps(s string, out map[string]bool) {
	for i := 0; i < len(s); i++ {
		if strings.HasPrefix(s[i:], "(|skf!") {
			depth := 0
			for j := i; j < len(s); j++ {
				if s[j] == '(' {
					depth++
				} else if s[j] == ')' {
					depth--
					if depth == 0 {
						out[s[i:j+1]] = true
						break
					}
				}
			}
		} else if strings.HasPrefix(s[i:], "|skf!") && (i == 0 || s[i-1] != '(') {
			if j := strings.Index(s[i+1:], "|"); j >= 0 {
				out[s[i:i+j+2]] = true
			}
		}
	}
}

// replaceSymbol substitutes whole-token occurrences of sym in an S-expression string.
func replaceSymbol(s, sym, by string) string {
	var b strings.Builder
	i := 0
	for i < len(s) {
		if strings.HasPrefix(s[i:], sym) {
			before := i == 0 || strings.ContainsRune(" ()", rune(s[i-1]))
			j := i + len(sym)
			after := j >= len(s) || strings.ContainsRune(" ()", rune(s[j]))
			if before && after {
				b.WriteString(by)
				i = j
				continue
			}
		}
		b.WriteByte(s[i])
		i++
	}
	return b.String()
}

// ---- goal-directed instantiation of quantified hypotheses (a safety net for E-matching)

// selectIndexTerms collects the index arguments of (select A I) subterms of s, and the summands of sums among them.
func selectIndexTerms(s string, out map[string]bool) {
	parts := splitSexp(s)
	if len(parts) == 0 {
		return
	}
	if parts[0] == "select" && len(parts) == 3 {
		idx := parts[2]
		out[idx] = true
		if ip := splitSexp(idx); len(ip) >= 3 && (ip[0] == "+" || ip[0] == "-") {
			for _, a := range ip[1:] {
				out[a] = true
			}
		}
	}
	for _, p := range parts[1:] {
		if strings.HasPrefix(p, "(") {
			selectIndexTerms(p, out)
		}
	}
}

// groundInstances instantiates the positively-occurring single-sorted Int quantifiers of assertion a with terms.
func groundInstances(a string, terms []string, ctx []string, budget *int) []string {
	parts := splitSexp(a)
	if len(parts) == 0 || *budget <= 0 {
		return nil
	}
	switch parts[0] {
	case "=>":
		if len(parts) != 3 {
			return nil
		}
		var out []string
		for _, c := range groundInstances(parts[2], terms, ctx, budget) {
			out = append(out, "(=> "+parts[1]+" "+c+")")
		}
		return out
	case "and":
		var out []string
		for _, p := range parts[1:] {
			out = append(out, groundInstances(p, terms, ctx, budget)...)
		}
		return out
	case "forall":
		if len(parts) != 3 {
			return nil
		}
		vars := splitSexp(parts[1])
		body := parts[2]
		if bp := splitSexp(body); len(bp) >= 2 && bp[0] == "!" {
			body = bp[1]
		}
		if len(vars) == 2 {
			// two Int variables: all ordered pairs of the first few terms (skolems come first in terms)
			v0, v1 := splitSexp(vars[0]), splitSexp(vars[1])
			if len(v0) != 2 || len(v1) != 2 || v0[1] != "Int" || v1[1] != "Int" {
				return nil
			}
			var ints []string
			for _, t := range terms {
				if strings.HasPrefix(t, "(mk-iface ") || (strings.HasPrefix(t, "|sk!") && strings.Contains(t, "!Iface!")) {
					continue
				}
				ints = append(ints, t)
				if strings.HasPrefix(t, "|sk!") {
					ints = append(ints, "(+ "+t+" 1)", "(- "+t+" 1)") // shifted positions (element removal / insertion)
				}
				if len(ints) >= 9 {
					break
				}
			}
			// loop counters and other short index terms of the code (the usual second component)
			for _, t := range ctx {
				if len(ints) >= 12 {
					break
				}
				ints = append(ints, t)
			}
			var out []string
			for _, a := range ints {
				for _, b := range ints {
					if a == b || *budget <= 0 {
						continue
					}
					*budget--
					inst := replaceSymbol(replaceSymbol(body, v0[0], a), v1[0], b)
					if strings.Contains(inst, "(forall ") || strings.Contains(inst, "(exists ") {
						continue
					}
					out = append(out, inst)
				}
			}
			return out
		}
		if len(vars) != 1 {
			return nil
		}
		vp := splitSexp(vars[0])
		if len(vp) != 2 || (vp[1] != "Int" && vp[1] != "Iface") {
			return nil
		}
		var out []string
		for _, t := range terms {
			isIface := strings.HasPrefix(t, "(mk-iface ") || (strings.HasPrefix(t, "|sk!") && strings.Contains(t, "!Iface!"))
			if (vp[1] == "Iface") != isIface {
				continue
			}
			if *budget <= 0 {
				break
			}
			*budget--
			inst := replaceSymbol(body, vp[0], t)
			if strings.Contains(inst, "(forall ") {
				// nested quantifier: instantiate the inner one too
				for _, c := range groundInstances(inst, terms, ctx, budget) {
					out = append(out, c)
				}
				continue
			}
			out = append(out, inst)
		}
		return out
	}
	return nil
}
