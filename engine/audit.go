package engine

import (
	"fmt"
	"sort"
	"strings"

	"golang.org/x/tools/go/ssa"
)

// Audit lists, per property, the functions that carry a contract with clauses relevant to the property (untagged or tagged
// with it), are called (statically, also through closures) from a unit of the property, and are NOT units of the property
// themselves: their contracts are assumed at the call sites of that property's proof but never checked by its command.
func Audit(p *Program) int {
	rules, err := loadRules()
	if err != nil {
		fmt.Println("ENGINE-ERROR rules:", err)
		return 2
	}
	props := map[string]bool{}
	for _, r := range rules {
		props[r.Prop] = true
	}
	var ps []string
	for k := range props {
		ps = append(ps, k)
	}
	sort.Strings(ps)
	total := 0
	for _, prop := range ps {
		units := map[*ssa.Function]bool{}
		for _, r := range rules {
			if r.Prop != prop {
				continue
			}
			for _, k := range p.SortedFuncKeys() {
				fn := p.Funcs[k]
				name := k
				if n, ok := p.ExecName[fn]; ok {
					name = "redis.executor:" + n
				}
				if globMatch(r.Glob, name) || globMatch(r.Glob, k) {
					units[fn] = true
				}
			}
		}
		missing := map[string]int{}
		for fn := range units {
			for _, b := range fn.Blocks {
				for _, ins := range b.Instrs {
					var callee *ssa.Function
					switch x := ins.(type) {
					case ssa.CallInstruction:
						callee = x.Common().StaticCallee()
					case *ssa.MakeClosure:
						callee, _ = x.Fn.(*ssa.Function)
					}
					if callee == nil || units[callee] {
						continue
					}
					if _, inRepo := p.Funcs[FuncKey(callee)]; !inRepo {
						continue
					}
					fc := p.contractFor(callee)
					if fc == nil {
						continue
					}
					n := 0
					for _, c := range fc.Ensures {
						tags := clauseTags(c.Text)
						if len(tags) == 0 {
							n++
							continue
						}
						for _, t := range tags {
							if t == prop {
								n++
							}
						}
					}
					if n > 0 {
						missing[FuncKey(callee)] = n
					}
				}
			}
		}
		var ms []string
		for k, n := range missing {
			ms = append(ms, fmt.Sprintf("%s(%d)", k, n))
		}
		sort.Strings(ms)
		total += len(ms)
		fmt.Printf("%s: %d units, %d contracted callees outside the units: %s\n", prop, len(units), len(ms), strings.Join(ms, " "))
	}
	if total > 0 {
		return 1
	}
	return 0
}
