package engine

import (
	"fmt"
	"go/constant"
	"go/token"
	"go/types"
	"sort"
	"strings"

	"golang.org/x/tools/go/ssa"
)

// ---------------------------------------------------------------- struct invariants (global heap invariants)

func (g *Gen) structInvBody(si *StructInv, h Heap) (string, bool) {
	p := g.pkgByName(si.Pkg)
	if p == nil {
		return "", false
	}
	tn, ok := p.Scope().Lookup(si.Type).(*types.TypeName)
	if !ok {
		g.unsupported("invariant_struct: unknown type %s.%s", si.Pkg, si.Type)
		return "", false
	}
	env := &Env{g: g, vars: map[string]Val{}, heap: h, old: h, noLocals: true, pkg: p}
	env.vars["this"] = Val{T: "r!this", S: SRef, Ty: types.NewPointer(tn.Type())}
	t, err := env.evalBool(si.Clause.Expr)
	if err != nil {
		g.unsupported("invariant_struct %s: %v", si.Type, err)
		return "", false
	}
	return t, true
}

func (g *Gen) assumeStructInvs(h Heap, guard string) {
	for k, si := range g.P.Contract.Invs {
		body, ok := g.structInvBody(si, h)
		if !ok {
			continue
		}
		if guard == "true" && g.invKnown[k] == "" {
			g.invKnown[k] = body
		}
		if g.invAssumed == nil {
			g.invAssumed = map[string]bool{}
		}
		key := fmt.Sprintf("%d|%s|%s", k, guard, body)
		if g.invAssumed[key] {
			continue
		}
		g.invAssumed[key] = true
		g.S.assert(imp(guard, fmt.Sprintf("(forall ((r!this Ref)) %s)", body)))
	}
}

func (g *Gen) samePkgAsInv(si *StructInv) bool {
	return g.Fn.Pkg != nil && g.Fn.Pkg.Pkg.Name() == si.Pkg
}

func (g *Gen) checkStructInvs(h Heap, guard string, pos token.Pos, where string) {
	if !g.mode.Contracts && !g.mode.Sweep {
		return
	}
	for k, si := range g.P.Contract.Invs {
		if !g.samePkgAsInv(si) {
			continue
		}
		body, ok := g.structInvBody(si, h)
		if !ok || body == g.invKnown[k] {
			continue
		}
		g.oblige("struct-inv", si.Type+" at "+where, si.Clause.Text, guard, fmt.Sprintf("(forall ((r!this Ref)) %s)", body), pos)
	}
}

func (g *Gen) assumeStructInvsIfHavoc(li *loopInfo, hh Heap) {
	for k, si := range g.P.Contract.Invs {
		body, ok := g.structInvBody(si, hh)
		if !ok || body == g.invKnown[k] {
			continue
		}
		if g.samePkgAsInv(si) {
			// must be established on entry
			pre, _ := g.structInvBody(si, li.preHeap)
			if pre != g.invKnown[k] {
				g.oblige("struct-inv", fmt.Sprintf("%s at loop%d entry", si.Type, li.ordinal), si.Clause.Text, g.reach[li.head],
					fmt.Sprintf("(forall ((r!this Ref)) %s)", pre), li.head.Instrs[0].Pos())
			}
		}
		g.S.assert(imp(g.reach[li.head], fmt.Sprintf("(forall ((r!this Ref)) %s)", body)))
	}
}

func (g *Gen) checkStructInvsAtBackEdge(li *loopInfo, hp Heap, guard string) {
	for k, si := range g.P.Contract.Invs {
		if !g.samePkgAsInv(si) {
			continue
		}
		head, ok := g.structInvBody(si, li.headHeap)
		if !ok || head == g.invKnown[k] {
			continue
		}
		body, _ := g.structInvBody(si, hp)
		if body == head {
			continue
		}
		g.oblige("struct-inv", fmt.Sprintf("%s at loop%d back edge", si.Type, li.ordinal), si.Clause.Text, guard,
			fmt.Sprintf("(forall ((r!this Ref)) %s)", body), li.head.Instrs[0].Pos())
	}
}

// ---------------------------------------------------------------- write sets (by scanning generation)

type wsEntry struct {
	comps []string
	all   bool
}

// writeSet returns the heap components fn may modify (transitively), or all=true.
func (p *Program) writeSet(fn *ssa.Function) ([]string, bool) {
	if p.ws == nil {
		p.ws = map[*ssa.Function]*wsEntry{}
		p.wsBusy = map[*ssa.Function]bool{}
	}
	if e, ok := p.ws[fn]; ok {
		return e.comps, e.all
	}
	if p.wsBusy[fn] {
		return nil, true // recursion without a contract: unknown
	}
	if len(fn.Blocks) == 0 {
		return nil, false
	}
	p.wsBusy[fn] = true
	g := scanGen(p, fn)
	delete(p.wsBusy, fn)
	set := map[string]bool{}
	all := false
	for _, ws := range g.blockWrites {
		for c := range ws {
			set[c] = true
		}
	}
	for _, a := range g.blockAll {
		all = all || a
	}
	var cs []string
	for c := range set {
		if !strings.HasPrefix(c, "DEFER|") {
			cs = append(cs, c)
		}
	}
	sort.Strings(cs)
	p.ws[fn] = &wsEntry{cs, all}
	return cs, all
}

// scanGen runs generation in scan mode: loops are not havocked; only per-block write sets are recorded.
func scanGen(p *Program, fn *ssa.Function) *Gen {
	g := NewGen(p, fn, GenMode{}, nil)
	g.scan = true
	g.Generate()
	return g
}

func (g *Gen) recordWrites(b *ssa.BasicBlock, before, after Heap) {
	if g.blockWrites == nil {
		g.blockWrites = map[int]map[string]bool{}
		g.blockAll = map[int]bool{}
	}
	ws := g.blockWrites[b.Index]
	if ws == nil {
		ws = map[string]bool{}
		g.blockWrites[b.Index] = ws
	}
	for c, t := range after {
		if bt, ok := before[c]; !ok || bt != t {
			ws[c] = true
		}
	}
	if g.curAll {
		g.blockAll[b.Index] = true
		g.curAll = false
	}
}

// loopWritesFromScan fills li.havoc from the scan pass.
func (g *Gen) loopWritesFromScan(li *loopInfo) {
	if g.scanRes == nil {
		return
	}
	for b := range li.body {
		for c := range g.scanRes.blockWrites[b.Index] {
			li.havoc[c] = true
		}
		if g.scanRes.blockAll[b.Index] {
			li.all = true
		}
	}
}

// ---------------------------------------------------------------- recursion cycles

func (p *Program) sameCycle(a, b *ssa.Function) bool {
	if a == b {
		return true
	}
	return p.reaches(b, a, map[*ssa.Function]bool{})
}

func (p *Program) reaches(from, to *ssa.Function, seen map[*ssa.Function]bool) bool {
	if seen[from] {
		return false
	}
	seen[from] = true
	for _, blk := range from.Blocks {
		for _, ins := range blk.Instrs {
			ci, ok := ins.(ssa.CallInstruction)
			if !ok {
				continue
			}
			c := ci.Common().StaticCallee()
			if c == nil || c.Pkg == nil || !isRepoPkg(c.Pkg.Pkg) {
				continue
			}
			if c == to || p.reaches(c, to, seen) {
				return true
			}
		}
	}
	return false
}

// ---------------------------------------------------------------- package-level variables

// initOnlyGlobal reports whether a package-level variable is stored to only by the package initializer.
func (p *Program) initOnlyGlobal(gl *ssa.Global) bool {
	if p.glInit == nil {
		p.glInit = map[*ssa.Global]bool{}
		written := map[*ssa.Global]bool{}
		for fn := range p.allFuncs() {
			isInit := fn.Name() == "init" && fn.Parent() == nil
			for _, b := range fn.Blocks {
				for _, ins := range b.Instrs {
					var addr ssa.Value
					switch x := ins.(type) {
					case *ssa.Store:
						addr = x.Addr
					case *ssa.MapUpdate:
						if u, ok := x.Map.(*ssa.UnOp); ok {
							addr = u.X
						}
					}
					if g2, ok := addr.(*ssa.Global); ok && !isInit {
						written[g2] = true
					}
					// address-taken globals escaping into calls are treated as written
					if c, ok := ins.(ssa.CallInstruction); ok && !isInit {
						for _, a := range c.Common().Args {
							if g2, ok := a.(*ssa.Global); ok {
								written[g2] = true
							}
						}
					}
				}
			}
		}
		for g2 := range written {
			p.glInit[g2] = false
		}
	}
	v, ok := p.glInit[gl]
	if !ok {
		return true
	}
	return v
}

func (p *Program) allFuncs() map[*ssa.Function]bool {
	if p.allFns == nil {
		p.allFns = map[*ssa.Function]bool{}
		for _, fn := range p.Funcs {
			p.allFns[fn] = true
		}
		// external packages may write their own globals; we only model repo globals and std sentinels
	}
	return p.allFns
}

// assumeInitMap axiomatises a package-level map that is built from a literal in init and never modified:
// its contents are read from the initializer's MapUpdate instructions.
func (g *Gen) assumeInitMap(gl *ssa.Global, name string, mt *types.Map, h Heap) {
	ks, vs := g.sortOf(mt.Key()), g.sortOf(mt.Elem())
	if ks != SInt || (vs != SInt && vs != SBool) {
		return
	}
	key := "initmap:" + name
	if g.S.declared[key] {
		return
	}
	g.S.declared[key] = true
	initFn := gl.Pkg.Func("init")
	if initFn == nil {
		return
	}
	// find: t = make map ; t[k]=v ... ; *gl = t
	var mapVal ssa.Value
	for _, b := range initFn.Blocks {
		for _, ins := range b.Instrs {
			if st, ok := ins.(*ssa.Store); ok && st.Addr == gl {
				mapVal = st.Val
			}
		}
	}
	if mapVal == nil {
		return
	}
	type kv struct{ k, v string }
	var kvs []kv
	for _, b := range initFn.Blocks {
		for _, ins := range b.Instrs {
			mu, ok := ins.(*ssa.MapUpdate)
			if !ok || mu.Map != mapVal {
				continue
			}
			kc, ok1 := mu.Key.(*ssa.Const)
			vc, ok2 := mu.Value.(*ssa.Const)
			if !ok1 || !ok2 || kc.Value == nil || vc.Value == nil {
				return // not a constant table
			}
			kvs = append(kvs, kv{numStr(constant.ToInt(kc.Value).ExactString()), numStr(constant.ToInt(vc.Value).ExactString())})
		}
	}
	md, mv := g.mapDomComp(ks, vs), g.mapValComp(ks, vs)
	// the table's contents in the *initial* heap (it is init-only, so also in every later heap for this ref:
	// stated for the initial symbols and re-stated after havocs through the quantified form below)
	dom := sel(g.initSym(md), name)
	val := sel(g.initSym(mv), name)
	var inDom []string
	for _, e := range kvs {
		inDom = append(inDom, eq("k", e.k))
		g.S.assert(eq(sel(val, e.k), e.v))
	}
	g.S.assert(fmt.Sprintf("(forall ((k Int)) (! (= (select %s k) %s) :pattern ((select %s k))))", dom, or(inDom...), dom))
	for _, o := range g.initMaps {
		g.S.assert(not(eq(o, name)))
	}
	g.initMaps = append(g.initMaps, name)
}

// ---------------------------------------------------------------- axioms

func exprCalls(e Expr, out map[string]bool) {
	switch x := e.(type) {
	case *ECall:
		out[x.Fun] = true
		for _, a := range x.Args {
			exprCalls(a, out)
		}
	case *EUnary:
		exprCalls(x.X, out)
	case *EBinary:
		exprCalls(x.L, out)
		exprCalls(x.R, out)
	case *ESel:
		exprCalls(x.X, out)
	case *EIndex:
		exprCalls(x.X, out)
		exprCalls(x.I, out)
	case *ESlice:
		exprCalls(x.X, out)
		if x.Lo != nil {
			exprCalls(x.Lo, out)
		}
		if x.Hi != nil {
			exprCalls(x.Hi, out)
		}
	case *EOld:
		exprCalls(x.X, out)
	case *EQuant:
		exprCalls(x.Body, out)
	case *EIte:
		exprCalls(x.C, out)
		exprCalls(x.T, out)
		exprCalls(x.E, out)
	}
}

// emitAxioms asserts every axiom that mentions an uninterpreted spec function used by this unit.
func (g *Gen) emitAxioms() {
	done := map[int]bool{}
	for changed := true; changed; {
		changed = false
		for i, ax := range g.P.Contract.Axioms {
			if done[i] {
				continue
			}
			calls := map[string]bool{}
			exprCalls(ax.Expr, calls)
			relevant := false
			for c := range calls {
				if g.S.declared[qsym("spec:"+c)] {
					relevant = true
				}
			}
			if !relevant {
				continue
			}
			done[i] = true
			changed = true
			env := &Env{g: g, vars: map[string]Val{}, heap: g.entryHeap, old: g.entryHeap, noLocals: true}
			if ax.Pkg != "" {
				env.pkg = g.pkgByName(ax.Pkg)
			}
			t, err := env.evalBool(ax.Expr)
			if err != nil {
				g.unsupported("axiom %s: %v", ax.Name, err)
				continue
			}
			g.S.assert(t)
			g.Assumed["axiom "+ax.Name+": "+strings.TrimSpace(ax.Text)] = true
		}
	}
}
