package engine

import (
	"encoding/hex"
	"encoding/json"
	"fmt"
	"go/types"
	"os"
	"os/exec"
	"path/filepath"
	"regexp"
	"sort"
	"strconv"
	"strings"
	"sync"
	"time"

	"golang.org/x/tools/go/ssa"
)

// ---------------------------------------------------------------------------------------------
// Counterexample replay.  A failed obligation usually comes back `unknown` (quantifiers), so a CANDIDATE model is
// obtained from the query with every quantified assertion removed (a weakening: the candidate may be spurious);
// it is then only trusted if the REAL code misbehaves on it: a panic or a hang for safety/termination
// obligations, or a behaviour that differs from the committed HEAD for the others (differential replay).
// ---------------------------------------------------------------------------------------------

var baseOnce sync.Once
var baseDir string
var baseErr error

func repoDir() string {
	if r := os.Getenv("VERIF_REPO"); r != "" {
		return r
	}
	return "/repo"
}

// baselineDir returns a scratch checkout of HEAD of the repository under test (created once per process).
func baselineDir() (string, error) {
	baseOnce.Do(func() {
		baseDir = filepath.Join(os.TempDir(), fmt.Sprintf("govc-base-%d", os.Getpid()))
		out, err := exec.Command("git", "-C", repoDir(), "worktree", "add", "-f", "--detach", baseDir, "HEAD").CombinedOutput()
		if err != nil {
			baseErr = fmt.Errorf("git worktree: %v: %s", err, out)
		}
	})
	return baseDir, baseErr
}

// CleanupReplay removes the baseline checkout.
func CleanupReplay() {
	if baseDir != "" {
		exec.Command("git", "-C", repoDir(), "worktree", "remove", "--force", baseDir).Run()
		os.RemoveAll(baseDir)
	}
}

func treeChanged() bool {
	out, _ := exec.Command("git", "-C", repoDir(), "status", "--porcelain", "--", "*.go").Output()
	return strings.TrimSpace(string(out)) != ""
}

type replayRecipe struct {
	kind    string // request | stream
	pkgDir  string // ./redis or ./redis/proto
	tmpl    string
	command string   // command name for request recipes
	prefix  []string // arguments placed before the model's arguments
	arrTerm string   // SMT term of the *proto.Array holding the arguments
	streamPrefix string
	password bool // run with a configured password (gate scenarios)
	msgBytes bool // the request is an unknown command whose name is the model's msg.bytes
	alsoRoundTrip bool // when the stream replay does not misbehave, run the round-trip portfolio too
}

var helperCommands = map[string][2]string{
	"redis.nextSetOptionArguments":      {"SET", "k v"},
	"redis.nextStringMapArguments":      {"MSET", ""},
	"redis.nextMSetArguments":           {"MSET", ""},
	"redis.nextRangeScoreIndexArgument": {"ZRANGEBYSCORE", "k"},
	"redis.nextRangeOptionArguments":    {"ZRANGE", "k 0 1"},
	"redis.nextScanArgument":            {"SCAN", "0"},
	"redis.nextExpireArgument":          {"EXPIRE", "k 10"},
	"redis.nextPopArguments":            {"LPOP", ""},
	"redis.nextPushArguments":           {"LPUSH", ""},
	"redis.nextSetExArguments":          {"SETEX", ""},
	"redis.nextIntegerArgument":         {"LINDEX", "k"},
	"redis.nextRangeIndexArgument":      {"ZREVRANGE", "k"},
	"redis.nextStringArgument":          {"GET", ""},
	"redis.nextKeyArgument":             {"GET", ""},
	"redis.nextHashArgument":            {"HGETALL", ""},
	"redis.nextStringArrayArguments":    {"DEL", ""},
	"redis.nextKeysArguments":           {"DEL", ""},
	"redis.nextMGetArguments":           {"MGET", ""},
	"redis.nextFloatArgument":           {"ZINCRBY", "k"},
	"redis.nextScoreArgument":           {"ZINCRBY", "k"},
	"redis.nextSetArguments":            {"SETNX", ""},
}

func recipeFor(p *Program, o *Obligation) *replayRecipe {
	g := o.Gen
	fn := g.Fn
	key := FuncKey(fn)
	if fn.Pkg != nil && fn.Pkg.Pkg.Name() == "proto" {
		pre := map[string]string{
			"proto.(*Parser).Next": "", "proto.(*Parser).nextLineBytes": "+", "proto.(*Parser).nextBulkMessage": "$",
			"proto.(*Parser).nextArrayMessage": "*", "proto.newArrayWithParser": "*", "proto.(*Parser).nextLengthBytes": "$NUM",
		}
		if strings.Contains(o.Name, "{C01") || strings.Contains(o.Name, "C01}") || strings.Contains(o.Name, "C01,") || strings.Contains(o.Name, ",C01") || strings.HasPrefix(key, "proto.verifRoundTrip") {
			if (key == "proto.(*Message).RESPBytes" || key == "proto.(*Array).RESPBytes" || strings.HasPrefix(key, "proto.verifRoundTrip")) && !strings.Contains(o.Name, "C04") {
				return &replayRecipe{kind: "roundtrip", pkgDir: "./redis/proto", tmpl: "roundtrip_replay_test.go.txt"}
			}
		}
		if sp, ok := pre[key]; ok {
			return &replayRecipe{kind: "stream", pkgDir: "./redis/proto", tmpl: "proto_replay_test.go.txt", streamPrefix: sp, alsoRoundTrip: true}
		}
		if key == "proto.(*Message).RESPBytes" || key == "proto.(*Array).RESPBytes" {
			// the serializer is reached with client bytes through the error reply for an unknown command name
			return &replayRecipe{kind: "request", pkgDir: "./redis", tmpl: "redis_replay_test.go.txt", command: "", msgBytes: true}
		}
		if strings.HasPrefix(key, "proto.(*Array).") || strings.HasPrefix(key, "proto.(*Message).") {
			// the request/reply containers are exercised through the request scenarios (differential against HEAD)
			return &replayRecipe{kind: "request", pkgDir: "./redis", tmpl: "redis_replay_test.go.txt", command: "PING"}
		}
		return nil
	}
	if fn.Pkg != nil && fn.Pkg.Pkg.Name() == "glob" {
		return &replayRecipe{kind: "glob", pkgDir: "./redis/glob", tmpl: "glob_replay_test.go.txt"}
	}
	if key == "redis.nextScanArgument" && strings.Contains(o.Name, "C17") {
		return &replayRecipe{kind: "glob", pkgDir: "./redis", tmpl: "globscan_replay_test.go.txt"}
	}
	if fn.Pkg != nil && fn.Pkg.Pkg.Name() == "server" && (key == "server.(*Server).Keys" || key == "server.(*Server).Scan") {
		return &replayRecipe{kind: "glob", pkgDir: "./examples/go-redisd/server", tmpl: "store_glob_replay_test.go.txt"}
	}
	if fn.Pkg != nil && fn.Pkg.Pkg.Name() == "server" {
		return &replayRecipe{kind: "store-model", pkgDir: "./examples/go-redisd/server", tmpl: "store_model_replay_test.go.txt"}
	}
	if fn.Pkg != nil && fn.Pkg.Pkg.Name() == "auth" {
		return &replayRecipe{kind: "request", pkgDir: "./redis", tmpl: "redis_replay_test.go.txt", command: "PING", password: true}
	}
	if fn.Pkg == nil || fn.Pkg.Pkg.Name() != "redis" {
		return nil
	}
	// find the *proto.Array parameter
	arr := ""
	for _, prm := range fn.Params {
		if pt, ok := prm.Type().(*types.Pointer); ok {
			if nt, ok := pt.Elem().(*types.Named); ok && nt.Obj().Name() == "Array" && nt.Obj().Pkg().Name() == "proto" {
				arr = g.vals[prm].T
			}
		}
	}
	r := &replayRecipe{kind: "request", pkgDir: "./redis", tmpl: "redis_replay_test.go.txt", arrTerm: arr}
	if name, ok := p.ExecName[fn]; ok {
		r.command = name
		return r
	}
	if hc, ok := helperCommands[key]; ok && arr != "" {
		r.command = hc[0]
		r.prefix = strings.Fields(hc[1])
		return r
	}
	if par := fn.Parent(); par != nil && strings.Contains(key, "registerSugarExecutors$1") {
		r.command = "INCRBY"
		r.arrTerm = ""
		return r
	}
	switch key {
	case "redis.(*Server).handleArrayMessage", "redis.(*Server).executeCommand":
		r.command = "" // first element is the command itself
		if strings.Contains(o.Name, "C20") || strings.Contains(o.Name, "C08") {
			r.password = true // the unauthorized path is one of the request outcomes
		}
		return r
	case "redis.(*Server).receive", "redis.(*Server).handleMessage", "redis.(*Server).responseMessage":
		r.arrTerm = ""
		r.command = "PING"
		return r
	case "redis.(*Server).Auth":
		r.arrTerm = ""
		r.command = "PING"
		r.password = true
		return r
	}
	if strings.HasPrefix(key, "redis.(*Server).") || strings.HasPrefix(key, "redis.(*Conn).") {
		// the framework's own command handlers and the connection object: the request scenarios (differential against HEAD)
		r.arrTerm = ""
		r.command = "PING"
		return r
	}
	return nil
}

var valRe = regexp.MustCompile(`^\(\s*(.*)\s+([^\s()]+|\(- \d+\))\)$`)

// queryValues runs the quantifier-free weakening of the obligation with extra constraints and returns the values of terms.
func queryValues(o *Obligation, extra []string, terms []string) (map[string]string, bool) {
	g := o.Gen
	var b strings.Builder
	for _, ln := range strings.Split(g.S.text(), "\n") {
		if strings.Contains(ln, "(forall ") || strings.Contains(ln, "(exists ") {
			continue
		}
		b.WriteString(ln)
		b.WriteByte('\n')
	}
	d, q := obligationQuery(o)
	for _, ln := range strings.Split(d, "\n") {
		if strings.Contains(ln, "(forall ") || strings.Contains(ln, "(exists ") {
			continue
		}
		b.WriteString(ln)
		b.WriteByte('\n')
	}
	if strings.Contains(q, "(forall ") || strings.Contains(q, "(exists ") {
		return nil, false
	}
	fmt.Fprintf(&b, "(assert %s)\n", q)
	for _, e := range extra {
		fmt.Fprintf(&b, "(assert %s)\n", e)
	}
	b.WriteString("(check-sat)\n")
	for _, t := range terms {
		fmt.Fprintf(&b, "(get-value (%s))\n", t)
	}
	f, err := os.CreateTemp("", "govc-cex-*.smt2")
	if err != nil {
		return nil, false
	}
	defer os.Remove(f.Name())
	f.WriteString(b.String())
	f.Close()
	out, _ := runCmd(20*time.Second, []string{"z3-new", "-smt2", "-t:8000", f.Name()})
	lines := strings.Split(out, "\n")
	if len(lines) == 0 || strings.TrimSpace(lines[0]) != "sat" {
		return nil, false
	}
	vals := map[string]string{}
	// each get-value prints ((term value)) possibly over several lines; join and split by "(("
	rest := strings.Join(lines[1:], " ")
	parts := strings.Split(rest, "((")
	k := 0
	for _, pt := range parts[1:] {
		pt = strings.TrimSpace(pt)
		if i := strings.LastIndex(pt, "))"); i >= 0 {
			pt = pt[:i]
		}
		if k >= len(terms) {
			break
		}
		t := terms[k]
		k++
		v := strings.TrimSpace(strings.TrimPrefix(pt, t))
		vals[t] = v
	}
	return vals, true
}

func smtInt(v string) (int64, bool) {
	v = strings.TrimSpace(v)
	neg := false
	if strings.HasPrefix(v, "(-") {
		neg = true
		v = strings.TrimSpace(strings.TrimSuffix(strings.TrimPrefix(v, "(-"), ")"))
	}
	n, err := strconv.ParseInt(v, 10, 64)
	if err != nil {
		// out of int64 range
		return 0, false
	}
	if neg {
		n = -n
	}
	return n, true
}

func respBulk(b []byte) []byte {
	return append(append([]byte(fmt.Sprintf("$%d\r\n", len(b))), b...), '\r', '\n')
}

// buildRequest turns the model's argument array into RESP request bytes.
func buildRequest(o *Obligation, r *replayRecipe) ([]byte, map[string]any, bool) {
	g := o.Gen
	info := map[string]any{}
	var elems [][]byte // encoded elements after the command and prefix
	if r.msgBytes {
		if recv, ok := g.params["msg"]; ok && g.S.declared[qsym("F|proto.Message|bytes@0")] && g.S.declared[qsym("E|Int@0")] {
			bs := sel(qsym("F|proto.Message|bytes@0"), recv.T)
			inner := sel(qsym("E|Int@0"), sx("s-arr", bs))
			ln := sx("s-len", bs)
			terms := []string{ln}
			var bts []string
			for j := 0; j < 16; j++ {
				bts = append(bts, sel(inner, sx("+", sx("s-off", bs), num(int64(j)))))
			}
			terms = append(terms, bts...)
			if ev, ok := queryValues(o, []string{sx("<=", ln, "16")}, terms); ok {
				L, _ := smtInt(ev[ln])
				var payload []byte
				for j := int64(0); j < L && j < 16; j++ {
					bv, _ := smtInt(ev[bts[j]])
					if bv < 0 || bv > 255 {
						bv = 'x'
					}
					payload = append(payload, byte(bv))
				}
				elems = append(elems, respBulk(payload))
			}
		}
		if len(elems) == 0 {
			elems = append(elems, respBulk([]byte("x\ry")))
		}
	}
	if r.arrTerm != "" && g.S.declared[qsym("F|proto.Array|msgs@0")] {
		A := r.arrTerm
		msgs := sel(qsym("F|proto.Array|msgs@0"), A)
		idxT := "0"
		if g.S.declared[qsym("F|proto.Array|index@0")] {
			idxT = sel(qsym("F|proto.Array|index@0"), A)
		}
		n := sx("s-len", msgs)
		vals, ok := queryValues(o, []string{sx("<=", n, "8"), sx("<=", "0", idxT)}, []string{n, idxT})
		if !ok {
			vals, ok = queryValues(o, nil, []string{n, idxT})
			if !ok {
				return nil, info, false
			}
		}
		nv, _ := smtInt(vals[n])
		iv, _ := smtInt(vals[idxT])
		if nv > 12 {
			nv = 12
		}
		info["model_len"], info["model_index"] = nv, iv
		fix := []string{eq(n, num(nv)), eq(idxT, num(iv))}
		hasE := g.S.declared[qsym("E|Ref@0")]
		hasT := g.S.declared[qsym("F|proto.Message|Type@0")]
		hasB := g.S.declared[qsym("F|proto.Message|bytes@0")]
		hasI := g.S.declared[qsym("E|Int@0")]
		var lits []string
		for v := range g.S.lits {
			lits = append(lits, v)
		}
		sort.Strings(lits)
		for k := iv; k < nv; k++ {
			if !hasE {
				elems = append(elems, respBulk([]byte("x")))
				continue
			}
			ref := sel(sel(qsym("E|Ref@0"), sx("s-arr", msgs)), sx("+", sx("s-off", msgs), num(k)))
			var terms []string
			isNull := eq(ref, "null")
			terms = append(terms, isNull)
			typ, blen, bnull, str := "", "", "", ""
			if hasT {
				typ = sel(qsym("F|proto.Message|Type@0"), ref)
				terms = append(terms, typ)
			}
			var byteTerms []string
			if hasB {
				bs := sel(qsym("F|proto.Message|bytes@0"), ref)
				blen, bnull = sx("s-len", bs), eq(sx("s-arr", bs), "null")
				terms = append(terms, blen, bnull)
				if hasI {
					inner := sel(qsym("E|Int@0"), sx("s-arr", bs))
					str = sx("str.ofbytes", inner, sx("s-off", bs), sx("s-len", bs))
					for j := 0; j < 24; j++ {
						bt := sel(inner, sx("+", sx("s-off", bs), num(int64(j))))
						byteTerms = append(byteTerms, bt)
					}
					terms = append(terms, byteTerms...)
					if g.S.declared[qsym("spec:atoiOK")] {
						terms = append(terms, sx(qsym("spec:atoiOK"), str))
					}
					if g.S.declared[qsym("spec:atoi")] {
						terms = append(terms, sx(qsym("spec:atoi"), str))
					}
					if g.S.declared[qsym("spec:toUpper")] {
						for _, l := range lits {
							terms = append(terms, eq(sx(qsym("spec:toUpper"), str), g.S.lits[l]))
						}
					}
				}
			}
			ev, ok := queryValues(o, fix, terms)
			if !ok {
				elems = append(elems, respBulk([]byte("x")))
				continue
			}
			if ev[isNull] == "true" {
				info[fmt.Sprintf("elem%d", k)] = "nil element (cannot be sent by a client)"
				continue
			}
			var payload []byte
			L := int64(1)
			if blen != "" {
				if v, ok := smtInt(ev[blen]); ok {
					L = v
				}
			}
			if L > 24 {
				L = 24
			}
			for j := int64(0); j < L && int(j) < len(byteTerms); j++ {
				bv, _ := smtInt(ev[byteTerms[j]])
				if bv < 0 || bv > 255 {
					bv = 'x'
				}
				payload = append(payload, byte(bv))
			}
			if str != "" {
				if ev[sx(qsym("spec:atoiOK"), str)] == "true" {
					if iv2, ok := smtInt(ev[sx(qsym("spec:atoi"), str)]); ok {
						payload = []byte(strconv.FormatInt(iv2, 10))
					} else {
						payload = []byte(strings.Trim(ev[sx(qsym("spec:atoi"), str)], "()- "))
					}
				}
				for _, l := range lits {
					if ev[eq(sx(qsym("spec:toUpper"), str), g.S.lits[l])] == "true" && l != "" {
						payload = []byte(l)
					}
				}
			}
			t := int64(3)
			if typ != "" {
				if tv, ok := smtInt(ev[typ]); ok {
					t = tv
				}
			}
			switch {
			case bnull != "" && ev[bnull] == "true" && t == 3:
				elems = append(elems, []byte("$-1\r\n"))
			case t == 0:
				elems = append(elems, append(append([]byte("+"), sanitizeLine(payload)...), '\r', '\n'))
			case t == 2:
				elems = append(elems, append(append([]byte(":"), sanitizeLine(payload)...), '\r', '\n'))
			case t == 4:
				elems = append(elems, []byte("*0\r\n"))
			case t == 1:
				elems = append(elems, append(append([]byte("-"), sanitizeLine(payload)...), '\r', '\n'))
			default:
				elems = append(elems, respBulk(payload))
			}
		}
	}
	var head [][]byte
	if r.command != "" {
		head = append(head, respBulk([]byte(r.command)))
	}
	for _, pa := range r.prefix {
		head = append(head, respBulk([]byte(pa)))
	}
	all := append(head, elems...)
	req := []byte(fmt.Sprintf("*%d\r\n", len(all)))
	for _, e := range all {
		req = append(req, e...)
	}
	info["request"] = string(req)
	return req, info, true
}

func respCmd(args ...string) string {
	b := []byte(fmt.Sprintf("*%d\r\n", len(args)))
	for _, a := range args {
		b = append(b, respBulk([]byte(a))...)
	}
	return hex.EncodeToString(b)
}

// scenarioPortfolio: fixed request sequences tried in addition to the model's candidate (for obligations whose
// failing input is a request outcome rather than an argument value).
func scenarioPortfolio(password bool) [][]string {
	if password {
		return [][]string{
			{respCmd("GET", "k")},
			{respCmd("AUTH", ""), respCmd("GET", "k")},
			{respCmd("AUTH", "wrong"), respCmd("GET", "k")},
			{respCmd("AUTH", "s3cre"), respCmd("GET", "k")},
			{respCmd("AUTH", "S3CRET"), respCmd("SET", "k", "v")},
			{respCmd("AUTH", "admin", "x"), respCmd("GET", "k")},
			{respCmd("AUTH", "admin", ""), respCmd("GET", "k")},
			{respCmd("auth", "x"), respCmd("STRLEN", "k")},
			{respCmd("AUTH"), respCmd("HLEN", "k")},
			{respCmd("AUTHX", "x"), respCmd("SUBSTR", "k", "0", "1")},
			{respCmd("AUTH", "s3cret"), respCmd("SELECT", "3"), respCmd("GET", "a"), respCmd("AUTH", "wrong"), respCmd("GET", "b"), respCmd("SET", "c", "d")},
			{respCmd("AUTH", "bob", "s3cret"), respCmd("GET", "a"), respCmd("AUTH", "s3cret"), respCmd("GET", "b")},
		}
	}
	return [][]string{
		{respCmd("PING"), respCmd("GET", "k"), respCmd("QUIT")},
		{respCmd("NOSUCHCMD", "a"), respCmd("PING")},
		{respCmd("GET"), respCmd("SET", "k"), respCmd("PING")},
		{hex.EncodeToString([]byte("+PING\r\n")), respCmd("PING")},
		{hex.EncodeToString([]byte("*0\r\n")), respCmd("PING")},
		{respCmd("PING"), "-" + hex.EncodeToString([]byte("*x\r\n"))},
		{respCmd("PING"), "-" + hex.EncodeToString([]byte("*2\r\n$3\r\nGET\r\n"))},
		{respCmd("SET", "k", ""), "-" + hex.EncodeToString([]byte("*3\r\n$3\r\nSET\r\n$2\r\nk2\r\n$0"))},
		{respCmd("STRLEN", "k"), respCmd("HLEN", "h"), respCmd("HKEYS", "h"), respCmd("QUIT")},
		{respCmd("ZADD", "z", "NX", "1", "m"), respCmd("PING")},
		{respCmd("SET", "k", "v", "EX", "10", "NX"), respCmd("INCR", "k"), respCmd("GETRANGE", "k", "0", "3")},
		{respCmd("GETRANGE", "k", "-9", "-10"), respCmd("GETRANGE", "k", "-4", "-5"), respCmd("GETRANGE", "k", "0", "3"), respCmd("GETRANGE", "k", "3", "3"), respCmd("SUBSTR", "k", "2", "1"), respCmd("GETRANGE", "k", "-1", "-3"), respCmd("GETRANGE", "k", "-3", "-1")},
		{respCmd("LPOP", "k", "abc"), respCmd("RPOP", "k", "1.5"), respCmd("LPOP", "k", "99999999999999999999"), respCmd("LINDEX", "k", "x"), respCmd("PING")},
		{respCmd("ZREVRANGEBYSCORE", "z", "(3", "1"), respCmd("ZREVRANGEBYSCORE", "z", "3", "(1"), respCmd("ZRANGEBYSCORE", "z", "(1", "3"), respCmd("ZRANGE", "z", "(1", "3", "BYSCORE")},
		{respCmd("DECRBY", "k", "-9223372036854775808"), respCmd("INCRBY", "k", "1"), respCmd("DECR", "k"), respCmd("APPEND", "k", "x"), respCmd("MGET", "a", "b", "c", "d")},
		{respCmd("SELECT", "2"), respCmd("GET", "a"), respCmd("SELECT", "-1"), respCmd("GET", "b"), respCmd("SELECT", "99999999999999999999"), respCmd("GET", "c")},
		{respCmd("SELECT", "5"), respCmd("GET", "a"), respCmd("SELECT", "abc"), respCmd("GET", "b"), respCmd("SELECT"), respCmd("GET", "c"), respCmd("SELECT", "2"), respCmd("GET", "d")},
		{respCmd("set", "k", "v", "ex", "10"), respCmd("SET", "k", "v", "Px", "1500"), respCmd("set", "k", "v", "nx"), respCmd("SET", "k", "v", "KeepTTL")},
		{respCmd("ZADD", "z", "1", "a", "2"), respCmd("ZADD", "z", "nan", "m"), respCmd("ZINCRBY", "z", "nan", "m"), respCmd("GET", "k")},
		// one pair each: the order in which MSET/MSETNX/HMSET visit several pairs is Go map order, not a behaviour to compare
		{respCmd("MSETNX", "k1", "v 1\r\n"), respCmd("MSET", "a", "b"), respCmd("HMSET", "h", "f", "v")},
		{respCmd("ZREVRANGE", "z", "0", "-1", "WITHSCORES"), respCmd("ZREVRANGEBYSCORE", "z", "3", "1", "withscores"), respCmd("ZREVRANGE", "z", "0", "-1"), respCmd("MGET", "a", "b")},
		{respCmd("ZRANGEBYSCORE", "z", "0", "10", "LIMIT", "5"), respCmd("ZRANGE", "z", "0", "-1", "LIMIT", "abc", "5"), respCmd("ZRANGEBYSCORE", "z", "0", "10", "limit", "0", "2", "WITHSCORES"), respCmd("ZREVRANGE", "z", "0", "1", "LIMIT", "0", "x"), respCmd("PING")},
		// only ill-formed EXPIRE requests: a well-formed one hands the handler a time derived from the clock, which no two runs share
		{respCmd("EXPIRE", "k", "-9223372036854775807"), respCmd("EXPIRE", "k", "9223372037"), respCmd("EXPIRE", "k", "abc"), respCmd("EXPIRE", "k"), respCmd("GET", "k")},
		{respCmd("HSET", "h", "f", ""), respCmd("HEXISTS", "h", "f"), respCmd("HSTRLEN", "h", "f"), respCmd("STRLEN", "k"), respCmd("GETSET", "k", "v")},
		{respCmd("ZINCRBY", "z", "0.1", "m"), respCmd("ZADD", "z", "0.1", "a", "0.1", "b"), respCmd("ZINCRBY", "z", "1e300", "m")},
		{respCmd("foo\rX+OK\rX"), respCmd("PING")},
		{respCmd("x\r\n+OK"), respCmd("x\ny"), respCmd("CONFIG", "a\rb")},
	}
}

func sanitizeLine(b []byte) []byte {
	out := make([]byte, 0, len(b))
	for _, c := range b {
		if c == '\r' || c == '\n' {
			c = '_'
		}
		out = append(out, c)
	}
	return out
}

// buildStream turns the model's ghost stream into bytes.
func buildStream(o *Obligation, r *replayRecipe) ([]byte, map[string]any, bool) {
	g := o.Gen
	info := map[string]any{}
	pos, end, in := qsym("G|S_pos@0"), qsym("G|S_end@0"), qsym("G|S_in@0")
	if !g.S.declared[pos] || !g.S.declared[end] {
		return nil, info, false
	}
	span := sx("-", end, pos)
	terms := []string{pos, end}
	numT := ""
	if v, ok := g.params["num"]; ok {
		numT = v.T
		terms = append(terms, numT)
	}
	var vals map[string]string
	ok := false
	if numT != "" {
		// boundary push: prefer an extreme declared length
		vals, ok = queryValues(o, []string{sx("<=", span, "48"), sx(">=", numT, "9223372036854775000")}, terms)
	}
	if !ok {
		vals, ok = queryValues(o, []string{sx("<=", span, "48")}, terms)
	}
	if !ok {
		vals, ok = queryValues(o, nil, terms)
		if !ok {
			return nil, info, false
		}
	}
	pv, _ := smtInt(vals[pos])
	ev, _ := smtInt(vals[end])
	n := ev - pv
	if n < 0 {
		n = 0
	}
	if n > 96 {
		n = 96
	}
	fix := []string{eq(pos, num(pv)), eq(end, num(ev))}
	var bts []string
	if g.S.declared[in] {
		for j := int64(0); j < n; j++ {
			bts = append(bts, sel(in, num(pv+j)))
		}
	}
	var data []byte
	if len(bts) > 0 {
		bv, ok := queryValues(o, fix, bts)
		if ok {
			for _, t := range bts {
				v, _ := smtInt(bv[t])
				if v < 0 || v > 255 {
					v = 'x'
				}
				data = append(data, byte(v))
			}
		}
	}
	for int64(len(data)) < n {
		data = append(data, 'x')
	}
	prefix := r.streamPrefix
	if prefix == "$NUM" {
		nv := strings.Trim(vals[numT], "() ")
		nv = strings.ReplaceAll(nv, "- ", "-")
		prefix = "$" + nv + "\r\n"
	}
	stream := append([]byte(prefix), data...)
	info["stream"] = string(stream)
	return stream, info, true
}

type replayRun struct {
	Lines []map[string]any
	Raw   string
	Err   string
}

func runReplay(dir string, r *replayRecipe, spec any) replayRun {
	tmp, err := os.MkdirTemp("", "govc-replay-*")
	if err != nil {
		return replayRun{Err: err.Error()}
	}
	defer os.RemoveAll(tmp)
	sb, _ := json.Marshal(spec)
	specFile := filepath.Join(tmp, "spec.json")
	os.WriteFile(specFile, sb, 0o644)
	src, err := os.ReadFile(filepath.Join(verifHome(), "replay", r.tmpl))
	if err != nil {
		return replayRun{Err: err.Error()}
	}
	testSrc := filepath.Join(tmp, "zz_verif_replay_test.go")
	os.WriteFile(testSrc, src, 0o644)
	target := filepath.Join(dir, strings.TrimPrefix(r.pkgDir, "./"), "zz_verif_replay_test.go")
	ov, _ := json.Marshal(map[string]any{"Replace": map[string]string{target: testSrc}})
	ovFile := filepath.Join(tmp, "overlay.json")
	os.WriteFile(ovFile, ov, 0o644)
	cmd := exec.Command("go", "test", "-mod=readonly", "-overlay", ovFile, "-vet=off", "-count=1", "-v", "-timeout", "120s", "-run", "^TestVerifReplay$", r.pkgDir)
	cmd.Dir = dir
	cmd.Env = append(os.Environ(), "GOFLAGS=", "GOPROXY=off", "GOSUMDB=off", "GOTOOLCHAIN=local", "GOWORK=off", "VERIF_REPLAY_SPEC="+specFile)
	out, err := cmd.CombinedOutput()
	run := replayRun{Raw: string(out)}
	if err != nil {
		run.Err = err.Error()
	}
	for _, ln := range strings.Split(string(out), "\n") {
		if i := strings.Index(ln, "VERIF-REPLAY "); i >= 0 {
			var m map[string]any
			if json.Unmarshal([]byte(ln[i+len("VERIF-REPLAY "):]), &m) == nil {
				delete(m, "stack_full")
				run.Lines = append(run.Lines, m)
			}
		}
	}
	return run
}

func outcomeKey(m map[string]any) string {
	k := fmt.Sprint(m["scenario"], m["stream"], "/", m["variant"], m["chunking"])
	return k
}

// TryReplay attempts to turn a failed obligation into a concrete failing run of the real code.
func TryReplay(p *Program, o *Obligation, opts SolveOpts) map[string]any {
	res := map[string]any{"attempted": false, "result": "no-failing-input-found"}
	if o.Gen == nil {
		return res
	}
	r := recipeFor(p, o)
	if r == nil {
		res["reason"] = "no replay recipe for this unit (obligation reported with the solver output only)"
		return res
	}
	res["attempted"] = true
	res["recipe"] = r.kind
	var spec any
	var info map[string]any
	switch r.kind {
	case "request":
		req, inf, ok := buildRequest(o, r)
		info = inf
		if !ok {
			res["reason"] = "no candidate model (the quantifier-free weakening is not satisfiable within the limit)"
			return res
		}
		sp := map[string]any{"requests_hex": []string{hex.EncodeToString(req)}, "timeout_ms": 3000, "scenarios_hex": scenarioPortfolio(r.password)}
		if r.password {
			sp["password"] = "s3cret"
		}
		spec = sp
	case "roundtrip":
		info = map[string]any{"portfolio": "fixed family of value trees (all byte values in line and bulk payloads, null/empty, multi-digit lengths, nested and empty arrays) x 6 chunkings (no solver model: the obligation is quantified)"}
		spec = map[string]any{}
	case "store-model":
		info = map[string]any{"portfolio": "2000 deterministic pseudo-random command programs (up to 30 commands, two keys per data type, small value/index/score pools) run against the real handlers and against a direct Redis model (no solver model: the obligation is quantified over the abstract store)"}
		spec = map[string]any{}
	case "glob":
		info = map[string]any{"portfolio": "all patterns up to length 3 and keys up to length 4 over the property's alphabet (no solver model: the obligation is quantified)"}
		spec = map[string]any{}
	case "stream":
		st, inf, ok := buildStream(o, r)
		info = inf
		if !ok {
			// no model to build a stream from (the obligation is quantified): the hostile portfolio is still worth running
			st = []byte("+OK\r\n")
			info = map[string]any{"note": "no candidate model (the quantifier-free weakening is not satisfiable within the limit); hostile portfolio only"}
		}
		var hostile []string
		for _, h := range []string{"$9223372036854775807\r\nabc\r\n", "$9223372036854775806\r\nabc\r\n", "*2\r\n$3\r\nGET\r\n$9223372036854775807\r\nk\r\n",
			"*9223372036854775807\r\n", "*1048577\r\n", "$536870913\r\n", "*2\r\n$3\r\nGET\r\n", "*1\r\n*1\r\n$1", "$5\r\nhello\r", "$5\r\nhelloXY", "$-2\r\n", "*-1\r\n", "$abc\r\n", "*-2\r\n", "*-9223372036854775808\r\n", "*1\r\n*-3\r\n", "*\r\n", "$\r\n", ":\r\n", "\r\n", "*1", "$1", "$0\r\n", "$0", "*1\r\n",
			"*3\r\n$3\r\nSET\r\n$1\r\nk\r\n$5\r\nhello\r\n*1\r\n$4\r\nPING\r\n", "+OK\r\n:12\r\n-ERR x\r\n$0\r\n\r\n$-1\r\n*0\r\n", "?x\r\n"} {
			hostile = append(hostile, hex.EncodeToString([]byte(h)))
		}
		spec = map[string]any{"stream_hex": hex.EncodeToString(st), "streams_hex": hostile, "timeout_ms": 3000}
	}
	res["candidate"] = info
	cur := runReplay(repoDir(), r, spec)
	if len(cur.Lines) == 0 {
		res["reason"] = "replay did not run: " + cur.Err
		res["replay_output"] = tailStr(cur.Raw, 2000)
		return res
	}
	res["runs"] = cur.Lines
	// 1. misbehaviour visible on its own
	for _, m := range cur.Lines {
		oc := fmt.Sprint(m["outcome"])
		if oc == "panic" || oc == "hang" {
			o.Reproduced = true
			res["result"] = "reproduced"
			res["observed"] = fmt.Sprintf("%s on the real code (%v) %v", oc, outcomeKey(m), m["panic"])
			return res
		}
		if fmt.Sprint(m["scenario"]) == "roundtrip" && oc != "agree" {
			o.Reproduced = true
			res["result"] = "reproduced"
			res["observed"] = fmt.Sprintf("round trip fails on the real code: %v", m)
			return res
		}
		if fmt.Sprint(m["scenario"]) == "store-model" && oc == "mismatch" {
			o.Reproduced = true
			res["result"] = "reproduced"
			res["observed"] = fmt.Sprintf("the example store answers differently from Redis: program %v: reply %q, Redis gives %q", m["program"], m["got"], m["want"])
			return res
		}
		if sc := fmt.Sprint(m["scenario"]); sc == "glob" || sc == "scan-match" || sc == "store-glob" {
			if oc == "mismatch" || oc == "compile-error" {
				o.Reproduced = true
				res["result"] = "reproduced"
				res["observed"] = fmt.Sprintf("%v on the real code: %v pattern %q key %q got=%v, a Redis glob gives %v %v", oc, m["command"], m["pattern"], m["key"], m["got"], m["want"], m["err"])
				return res
			}
		}
		if br, ok := m["tls_breach"].(bool); ok && br {
			o.Reproduced = true
			res["result"] = "reproduced"
			res["observed"] = fmt.Sprintf("a TLS client whose leaf certificate does not carry the configured name was served (%v): calls %v, reply %q", m["scenario"], m["calls"], m["out"])
			return res
		}
		if n, ok := m["registry_left"].(float64); ok && n > 0 {
			o.Reproduced = true
			res["result"] = "reproduced"
			res["observed"] = fmt.Sprintf("%v connection(s) still registered after receive returned (%v)", n, m["scenario"])
			return res
		}
		if rg, ok := m["tls_refused_good"].(bool); ok && rg {
			o.Reproduced = true
			res["result"] = "reproduced"
			res["observed"] = fmt.Sprintf("a TLS client with the configured common name on its leaf certificate was not served (%v)", m["scenario"])
			return res
		}
		if ne, ok := m["nil_element"].(bool); ok && ne {
			o.Reproduced = true
			res["result"] = "reproduced"
			res["observed"] = "the parser returned an array with a nil element (" + outcomeKey(m) + ")"
			return res
		}
		if sv, ok := m["span_violations"].([]any); ok && len(sv) > 0 {
			o.Reproduced = true
			res["result"] = "reproduced"
			res["observed"] = fmt.Sprintf("tracing spans unbalanced on the real code (%v, %v): %v", m["scenario"], outcomeKey(m), sv)
			return res
		}
		if br, ok := m["gate_breach"].(bool); ok && br {
			o.Reproduced = true
			res["result"] = "reproduced"
			res["observed"] = fmt.Sprintf("handler invoked although the exact password was never sent (%v, %v): %v", m["scenario"], outcomeKey(m), m["calls"])
			return res
		}
		if rq, ok := m["requests"].(float64); ok {
			if rp, ok := m["replies"].(float64); ok && rp != rq {
				o.Reproduced = true
				res["result"] = "reproduced"
				if rp < 0 {
					res["observed"] = fmt.Sprintf("the bytes written to the client are not a sequence of complete, valid RESP values (%v): %q", outcomeKey(m), m["out"])
				} else {
					res["observed"] = fmt.Sprintf("%v request(s) but %v complete reply frame(s) written (%v): %q", rq, rp, outcomeKey(m), m["out"])
				}
				return res
			}
		}
	}
	// 2. differential replay against the committed HEAD
	if treeChanged() {
		bd, err := baselineDir()
		if err == nil {
			base := runReplay(bd, r, spec)
			bm := map[string]map[string]any{}
			for _, m := range base.Lines {
				bm[outcomeKey(m)] = m
			}
			for _, m := range cur.Lines {
				b, ok := bm[outcomeKey(m)]
				if !ok {
					continue
				}
				for _, f := range []string{"outcome", "out_hex", "calls", "values", "err", "closed"} {
					if fmt.Sprint(m[f]) != fmt.Sprint(b[f]) {
						o.Reproduced = true
						res["result"] = "reproduced"
						res["observed"] = fmt.Sprintf("behaviour differs from HEAD on the candidate input (%v, field %s): working tree %q vs HEAD %q", outcomeKey(m), f, fmt.Sprint(m[f]), fmt.Sprint(b[f]))
						res["baseline_runs"] = base.Lines
						return res
					}
				}
			}
			res["baseline"] = "same behaviour as HEAD on the candidate input"
		} else {
			res["baseline"] = "unavailable: " + err.Error()
		}
	}
	if r.alsoRoundTrip {
		r2 := &replayRecipe{kind: "roundtrip", pkgDir: "./redis/proto", tmpl: "roundtrip_replay_test.go.txt"}
		rt := runReplay(repoDir(), r2, map[string]any{})
		for _, m := range rt.Lines {
			if fmt.Sprint(m["scenario"]) == "roundtrip" && fmt.Sprint(m["outcome"]) != "agree" {
				o.Reproduced = true
				res["result"] = "reproduced"
				res["recipe"] = "stream + roundtrip portfolio"
				res["observed"] = fmt.Sprintf("round trip fails on the real code: %v", m)
				return res
			}
		}
		res["roundtrip_portfolio"] = rt.Lines
	}
	res["reason"] = "the candidate input did not misbehave on the real code"
	return res
}

func tailStr(s string, n int) string {
	if len(s) > n {
		return s[len(s)-n:]
	}
	return s
}

var _ = ssa.BuilderMode(0)
