package engine

// TryReplay attempts to turn a failed obligation into a concrete failing run of the real code.
// (filled in by replay recipes; the default is no replay)
func TryReplay(p *Program, o *Obligation, opts SolveOpts) map[string]any {
	return map[string]any{"attempted": false, "reason": "no replay recipe for this unit", "result": "no-failing-input-found"}
}
