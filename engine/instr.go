package engine

import (
	"fmt"
	"go/token"
	"go/types"
	"strings"

	"golang.org/x/tools/go/ssa"
)

// instr gives semantics to one SSA instruction, returning the heap after it.
func (g *Gen) instr(b *ssa.BasicBlock, ins ssa.Instruction, h Heap) Heap {
	guard := g.reach[b]
	switch x := ins.(type) {
	case *ssa.DebugRef, *ssa.Jump, *ssa.If, *ssa.Phi:
		return h
	case *ssa.Alloc:
		T := derefType(x.Type())
		r, h2 := g.allocObject(h, T, x.Name())
		g.vals[x] = Val{T: r, S: SRef, Ty: x.Type()}
		return h2
	case *ssa.UnOp:
		return g.unop(b, x, h)
	case *ssa.BinOp:
		g.binop(b, x, h)
		return h
	case *ssa.Store:
		p := g.val(x.Addr)
		g.nilCheck(p, x.Pos(), guard, x.Addr)
		return g.storeAt(h, p, derefType(x.Addr.Type()), g.val(x.Val))
	case *ssa.FieldAddr:
		p := g.val(x.X)
		g.safety("nil", x.Pos(), guard, not(eq(p.T, "null")), "sel")
		T := derefType(x.X.Type())
		st := structOf(T)
		f := st.Field(x.Field)
		if _, isStruct := f.Type().Underlying().(*types.Struct); isStruct {
			sub := g.subRef(T, f.Name(), p.T)
			g.S.assert(not(eq(sub, "null")))
			v := Val{T: sub, S: SRef, Ty: x.Type()}
			if _, flat := isFlatStruct(f.Type()); !flat {
				// opaque struct field: its value lives in the field component; the derived ref is only its address
				comp, _ := g.fieldComp(T, f)
				v.Addr = &Addr{Comp: comp, Ref: p.T, Ty: f.Type()}
			}
			g.vals[x] = v
			return h
		}
		comp, _ := g.fieldComp(T, f)
		g.vals[x] = Val{S: SRef, Ty: x.Type(), Addr: &Addr{Comp: comp, Ref: p.T, Ty: f.Type()}}
		return h
	case *ssa.Field:
		sv := g.val(x.X)
		if x.Field < len(sv.Flds) {
			g.vals[x] = sv.Flds[x.Field]
		} else {
			g.vals[x] = g.fresh(x.Type(), "field")
		}
		return h
	case *ssa.IndexAddr:
		g.indexAddr(b, x, h)
		return h
	case *ssa.Index:
		cv, iv := g.val(x.X), g.val(x.Index)
		if cv.S == SStr {
			g.safety("bounds", x.Pos(), guard, and(sx("<=", "0", iv.T), sx("<", iv.T, sx("slen", cv.T))), "index")
			g.define(x, Val{T: sx("sat", cv.T, iv.T), S: SInt, Ty: x.Type()})
			g.S.assert(g.typeAssume(g.vals[x]))
		} else {
			g.vals[x] = g.fresh(x.Type(), "index")
		}
		return h
	case *ssa.Lookup:
		g.lookup(b, x, h)
		return h
	case *ssa.Slice:
		return g.slice(b, x, h)
	case *ssa.MakeSlice:
		return g.makeSlice(b, x, h)
	case *ssa.MakeMap:
		r, h2 := g.freshRef(h, "map")
		mt := x.Type().Underlying().(*types.Map)
		ks, vs := g.sortOf(mt.Key()), g.sortOf(mt.Elem())
		if ks != "" && vs != "" {
			md := g.mapDomComp(ks, vs)
			h2 = h2.clone()
			h2[md] = store(g.hget(h2, md), r, fmt.Sprintf("((as const (Array %s Bool)) false)", ks))
		}
		g.vals[x] = Val{T: r, S: SRef, Ty: x.Type()}
		return h2
	case *ssa.MapUpdate:
		m, k, v := g.val(x.Map), g.val(x.Key), g.val(x.Value)
		g.safety("nil-map", x.Pos(), guard, not(eq(m.T, "null")), "index", "stmt")
		mt := x.Map.Type().Underlying().(*types.Map)
		ks, vs := g.sortOf(mt.Key()), g.sortOf(mt.Elem())
		if ks == "" || vs == "" {
			g.unsupported("map with struct key/value")
			return h
		}
		md, mv := g.mapDomComp(ks, vs), g.mapValComp(ks, vs)
		h = h.clone()
		d, vv := g.hget(h, md), g.hget(h, mv)
		h[md] = store(d, m.T, store(sel(d, m.T), k.T, "true"))
		h[mv] = store(vv, m.T, store(sel(vv, m.T), k.T, v.T))
		return h
	case *ssa.MakeInterface:
		v := g.val(x.X)
		id := g.typeID(x.X.Type())
		if v.S == "" || v.Addr != nil {
			bx := g.S.freshName("box")
			g.S.declare(bx, "Box")
			g.define(x, Val{T: sx("mk-iface", num(int64(id)), bx), S: SIface, Ty: x.Type()})
			return h
		}
		bf, _ := g.S.box(v.S)
		g.define(x, Val{T: sx("mk-iface", num(int64(id)), sx(bf, v.T)), S: SIface, Ty: x.Type()})
		return h
	case *ssa.ChangeInterface:
		g.vals[x] = retype(g.val(x.X), x.Type())
		return h
	case *ssa.ChangeType:
		g.vals[x] = retype(g.val(x.X), x.Type())
		return h
	case *ssa.Convert:
		return g.convert(b, x, h)
	case *ssa.TypeAssert:
		g.typeAssert(b, x, h)
		return h
	case *ssa.Extract:
		t := g.val(x.Tuple)
		if x.Index < len(t.Flds) {
			g.vals[x] = t.Flds[x.Index]
		} else {
			g.vals[x] = g.fresh(x.Type(), "extract")
		}
		return h
	case *ssa.MakeClosure:
		fn := x.Fn.(*ssa.Function)
		v := g.fresh(x.Type(), "closure:"+fn.Name())
		g.vals[x] = v
		g.staticFn[x] = fn
		return h
	case *ssa.Call:
		res, h2 := g.call(b, x, &x.Call, h, guard)
		g.vals[x] = res
		return h2
	case *ssa.Go:
		g.Assumed["go statement: the spawned call is not followed; only its 'spawned' ghost bookkeeping is applied"] = true
		if fn := x.Call.StaticCallee(); fn != nil {
			if fc := g.P.contractFor(fn); fc != nil {
				env := &Env{g: g, vars: map[string]Val{}, heap: h, old: h, noLocals: true}
				for _, d := range fc.Spawned {
					v, err := env.eval(d.Expr)
					if err != nil {
						g.unsupported("%s: spawned %q: %v", fc.Key, d.Text, err)
						continue
					}
					h2, err := g.setDesignator(env, d.Target, v, h)
					if err != nil {
						g.unsupported("%s: spawned %q: %v", fc.Key, d.Text, err)
						continue
					}
					h = h2
					env.heap = h
				}
			}
		}
		return h
	case *ssa.Defer:
		k := len(g.defers)
		g.defers = append(g.defers, x)
		comp := fmt.Sprintf("DEFER|%d", k)
		g.regComp(comp, "Bool")
		// arguments are evaluated now
		for _, a := range x.Call.Args {
			g.val(a)
		}
		h = h.clone()
		h[comp] = "true"
		return h
	case *ssa.RunDefers:
		return g.runDefers(b, x, h, guard)
	case *ssa.Return:
		g.ret(b, x, h, guard)
		return h
	case *ssa.Panic:
		if g.mode.Sweep {
			g.oblige("panic", g.anchorText(x.Pos(), "call"), "", guard, "false", x.Pos())
		}
		return h
	case *ssa.Range:
		g.vals[x] = Val{T: g.val(x.X).T, S: g.val(x.X).S, Ty: x.X.Type()}
		return h
	case *ssa.Next:
		g.next(b, x, h)
		return h
	case *ssa.Select, *ssa.Send:
		g.unsupported("channel operation %s", ins)
		return h
	}
	g.unsupported("instruction %T %s", ins, ins)
	if v, ok := ins.(ssa.Value); ok {
		g.vals[v] = g.fresh(v.Type(), "unsup")
	}
	return h
}

func retype(v Val, t types.Type) Val {
	v.Ty = t
	return v
}

func (g *Gen) mapDomComp(k, v Sort) string {
	n := compMD(k, v)
	g.regComp(n, arrSort("Ref", arrSort(string(k), "Bool")))
	return n
}
func (g *Gen) mapValComp(k, v Sort) string {
	n := compMV(k, v)
	g.regComp(n, arrSort("Ref", arrSort(string(k), string(v))))
	return n
}

func (g *Gen) nilCheck(p Val, pos token.Pos, guard string, addr ssa.Value) {
	if p.Addr != nil {
		return // checked at FieldAddr/IndexAddr
	}
	if _, ok := addr.(*ssa.Alloc); ok {
		return
	}
	if _, ok := addr.(*ssa.Global); ok {
		return
	}
	if _, ok := addr.(*ssa.FreeVar); ok {
		return
	}
	g.safety("nil", pos, guard, not(eq(p.T, "null")), "star", "sel")
}

func (g *Gen) unop(b *ssa.BasicBlock, x *ssa.UnOp, h Heap) Heap {
	guard := g.reach[b]
	v := g.val(x.X)
	switch x.Op {
	case token.MUL:
		g.nilCheck(v, x.Pos(), guard, x.X)
		if gl, ok := x.X.(*ssa.Global); ok {
			if cv, ok := g.globalValue(gl, h); ok {
				g.vals[x] = cv
				return h
			}
		}
		lv := g.loadAt(h, v, x.Type())
		g.assumeLoaded(h, lv)
		g.defineDeep(x, lv)
		if fn := g.resolveStaticFn(x.X); fn != nil {
			g.staticFn[x] = fn
		}
	case token.NOT:
		g.define(x, Val{T: not(v.T), S: SBool, Ty: x.Type()})
	case token.SUB:
		if v.S == SF64 {
			g.define(x, Val{T: sx("f.neg", v.T), S: SF64, Ty: x.Type()})
		} else {
			g.define(x, Val{T: wrapTo(sx("-", v.T), x.Type(), true), S: SInt, Ty: x.Type()})
			g.overflowCheck(b, x.Pos(), sx("-", v.T), x.Type())
		}
	case token.XOR:
		g.define(x, Val{T: wrapTo(sx("-", sx("-", v.T), "1"), x.Type(), true), S: SInt, Ty: x.Type()})
	default:
		g.unsupported("unary %s", x.Op)
		g.vals[x] = g.fresh(x.Type(), "unop")
	}
	return h
}

// defineDeep names every scalar leaf of a loaded value.
func (g *Gen) defineDeep(v ssa.Value, x Val) {
	if x.S == "" {
		g.vals[v] = x
		return
	}
	g.define(v, x)
}

// assumeLoaded adds the typing facts of values read from memory.
func (g *Gen) assumeLoaded(h Heap, v Val) {
	if v.S == "" {
		for _, f := range v.Flds {
			g.assumeLoaded(h, f)
		}
		return
	}
	// typing facts are assumptions about unknown memory: only for a plain read of a named heap version (see isRawHeapLoad);
	// a value the program built and stored earlier carries whatever the program established about it, nothing more
	if isRawHeapLoad(v.T) || !strings.HasPrefix(v.T, "(") {
		g.S.assert(g.typeAssume(v))
	}
	g.assumeAllocated(h, v)
}

// globalValue gives package-level variables their value: sentinel errors and init-only tables are constants.
func (g *Gen) globalValue(gl *ssa.Global, h Heap) (Val, bool) {
	T := derefType(gl.Type())
	so := g.sortOf(T)
	if so == "" {
		return Val{}, false
	}
	key := gl.Pkg.Pkg.Path() + "." + gl.Name()
	if !g.P.initOnlyGlobal(gl) {
		// mutable global: unconstrained read
		v := g.fresh(T, "global:"+gl.Name())
		return v, true
	}
	name := qsym("gv:" + key)
	g.S.declare(name, string(so))
	v := Val{T: name, S: so, Ty: T}
	if so == SIface {
		// sentinel error: a distinct object allocated at package initialisation (A14)
		if !g.S.declared["sentinel:"+name] {
			g.S.declared["sentinel:"+name] = true
			ref := qsym("gvref:" + key)
			g.S.declare(ref, "Ref")
			bf, _ := g.S.box(SRef)
			g.S.assert(eq(name, sx("mk-iface", num(int64(g.errTypeID())), sx(bf, ref))))
			g.S.assert(and(not(eq(ref, "null")), sel(g.initSym(g.allocComp()), ref)))
			for _, o := range g.sentinels {
				g.S.assert(not(eq(o, ref)))
			}
			g.sentinels = append(g.sentinels, ref)
			if types.Identical(T, types.Universe.Lookup("error").Type()) {
				is := g.errIs()
				g.S.assert(fmt.Sprintf("(forall ((t Iface)) (! (= (%s %s t) (= t %s)) :pattern ((%s %s t))))", is, name, name, is, name))
			}
		}
	}
	if so == SRef {
		g.S.assert(not(eq(name, "null")))
		if mt, ok := T.Underlying().(*types.Map); ok {
			g.assumeInitMap(gl, name, mt, h)
		}
	}
	return v, true
}

func (g *Gen) errTypeID() int {
	if id, ok := g.typeIDs["*errors.errorString"]; ok {
		return id
	}
	id := len(g.typeIDs) + 1
	g.typeIDs["*errors.errorString"] = id
	return id
}

// freshError models errors.New / fmt.Errorf: a new error object; wrapped is the %w operand ("" if none).
func (g *Gen) freshError(h Heap, wrapped string) (Val, Heap) {
	r, h2 := g.freshRef(h, "err")
	bf, _ := g.S.box(SRef)
	n := g.S.freshName("error")
	g.S.declare(n, "Iface")
	g.S.assert(eq(n, sx("mk-iface", num(int64(g.errTypeID())), sx(bf, r))))
	is := g.errIs()
	if wrapped == "" {
		g.S.assert(fmt.Sprintf("(forall ((t Iface)) (! (= (%s %s t) (= t %s)) :pattern ((%s %s t))))", is, n, n, is, n))
	} else {
		g.S.assert(fmt.Sprintf("(forall ((t Iface)) (! (= (%s %s t) (or (= t %s) (%s %s t))) :pattern ((%s %s t))))", is, n, n, is, wrapped, is, n))
	}
	return Val{T: n, S: SIface, Ty: types.Universe.Lookup("error").Type()}, h2
}

func (g *Gen) overflowCheck(b *ssa.BasicBlock, pos token.Pos, math string, t types.Type) {
	if !g.flag("no_overflow") || !g.mode.Contracts {
		return
	}
	lo, hi, ok := intRange(t)
	if !ok {
		return
	}
	g.oblige("overflow", g.anchorText(pos, "binary", "unary", "stmt"), "", g.reach[b], and(sx("<=", lo, math), sx("<=", math, hi)), pos)
}

func (g *Gen) binop(b *ssa.BasicBlock, x *ssa.BinOp, h Heap) {
	guard := g.reach[b]
	l, r := g.val(x.X), g.val(x.Y)
	T := x.Type()
	switch {
	case l.S == SInt && r.S == SInt:
		var t string
		arith := ""
		switch x.Op {
		case token.ADD:
			arith = sx("+", l.T, r.T)
		case token.SUB:
			arith = sx("-", l.T, r.T)
		case token.MUL:
			arith = sx("*", l.T, r.T)
		case token.QUO, token.REM:
			g.safety("div", x.Pos(), guard, not(eq(r.T, "0")), "binary")
			// Go truncates toward zero; SMT div is floor for positive divisor (euclidean)
			q := fmt.Sprintf("(ite (>= %s 0) (div %s %s) (- (div (- %s) %s)))", l.T, l.T, r.T, l.T, r.T)
			if x.Op == token.QUO {
				arith = q
			} else {
				arith = sx("-", l.T, sx("*", r.T, q))
			}
		case token.EQL:
			t = eq(l.T, r.T)
		case token.NEQ:
			t = not(eq(l.T, r.T))
		case token.LSS:
			t = sx("<", l.T, r.T)
		case token.LEQ:
			t = sx("<=", l.T, r.T)
		case token.GTR:
			t = sx(">", l.T, r.T)
		case token.GEQ:
			t = sx(">=", l.T, r.T)
		default:
			// bit operations: unconstrained in-range result
			g.vals[x] = g.fresh(T, "bitop")
			g.Assumed["bit operation "+x.Op.String()+" modelled as unconstrained"] = true
			return
		}
		if arith != "" {
			single := x.Op == token.ADD || x.Op == token.SUB
			g.overflowCheck(b, x.Pos(), arith, T)
			g.define(x, Val{T: wrapTo(arith, T, single), S: SInt, Ty: T})
			return
		}
		g.define(x, Val{T: t, S: SBool, Ty: T})
	case l.S == SF64:
		var t string
		switch x.Op {
		case token.ADD:
			g.define(x, Val{T: sx("f.add", l.T, r.T), S: SF64, Ty: T})
			return
		case token.SUB:
			g.define(x, Val{T: sx("f.sub", l.T, r.T), S: SF64, Ty: T})
			return
		case token.MUL:
			g.define(x, Val{T: sx("f.mul", l.T, r.T), S: SF64, Ty: T})
			return
		case token.QUO:
			g.define(x, Val{T: sx("f.div", l.T, r.T), S: SF64, Ty: T})
			return
		case token.EQL:
			t = sx("f.eq", l.T, r.T)
		case token.NEQ:
			t = not(sx("f.eq", l.T, r.T))
		case token.LSS:
			t = sx("f.lt", l.T, r.T)
		case token.LEQ:
			t = sx("f.leq", l.T, r.T)
		case token.GTR:
			t = sx("f.gt", l.T, r.T)
		case token.GEQ:
			t = sx("f.geq", l.T, r.T)
		}
		g.define(x, Val{T: t, S: SBool, Ty: T})
	case l.S == SStr:
		switch x.Op {
		case token.ADD:
			g.define(x, Val{T: sx("str.concat", l.T, r.T), S: SStr, Ty: T})
		case token.EQL:
			g.define(x, Val{T: eq(l.T, r.T), S: SBool, Ty: T})
		case token.NEQ:
			g.define(x, Val{T: not(eq(l.T, r.T)), S: SBool, Ty: T})
		case token.LSS:
			g.define(x, Val{T: sx("str.lt", l.T, r.T), S: SBool, Ty: T})
		case token.GTR:
			g.define(x, Val{T: sx("str.lt", r.T, l.T), S: SBool, Ty: T})
		case token.LEQ:
			g.define(x, Val{T: not(sx("str.lt", r.T, l.T)), S: SBool, Ty: T})
		case token.GEQ:
			g.define(x, Val{T: not(sx("str.lt", l.T, r.T)), S: SBool, Ty: T})
		default:
			g.vals[x] = g.fresh(T, "strcmp")
		}
	case l.S == SBool:
		switch x.Op {
		case token.EQL:
			g.define(x, Val{T: eq(l.T, r.T), S: SBool, Ty: T})
		case token.NEQ:
			g.define(x, Val{T: not(eq(l.T, r.T)), S: SBool, Ty: T})
		case token.AND, token.LAND:
			g.define(x, Val{T: and(l.T, r.T), S: SBool, Ty: T})
		case token.OR, token.LOR:
			g.define(x, Val{T: or(l.T, r.T), S: SBool, Ty: T})
		default:
			g.vals[x] = g.fresh(T, "boolop")
		}
	default:
		// reference-like equality
		e := g.equalTerm(l, r)
		if e == "" {
			g.unsupported("binop %s on %s", x.Op, x.X.Type())
			g.vals[x] = g.fresh(T, "binop")
			return
		}
		if x.Op == token.NEQ {
			e = not(e)
		}
		g.define(x, Val{T: e, S: SBool, Ty: T})
	}
}

// equalTerm is Go's == on two values of the same sort.
func (g *Gen) equalTerm(l, r Val) string {
	switch l.S {
	case SSlice:
		// only comparison with nil is legal
		if r.T == "slice.nil" {
			return eq(sx("s-arr", l.T), "null")
		}
		if l.T == "slice.nil" {
			return eq(sx("s-arr", r.T), "null")
		}
		return ""
	case SIface:
		if r.T == "iface.nil" {
			return eq(sx("i-typ", l.T), "0")
		}
		if l.T == "iface.nil" {
			return eq(sx("i-typ", r.T), "0")
		}
		return eq(l.T, r.T)
	case "":
		if len(l.Flds) != len(r.Flds) {
			return ""
		}
		var cs []string
		for i := range l.Flds {
			c := g.equalTerm(l.Flds[i], r.Flds[i])
			if c == "" {
				return ""
			}
			cs = append(cs, c)
		}
		return and(cs...)
	}
	if l.Addr != nil || r.Addr != nil {
		return ""
	}
	return eq(l.T, r.T)
}

func (g *Gen) indexAddr(b *ssa.BasicBlock, x *ssa.IndexAddr, h Heap) {
	guard := g.reach[b]
	cv, iv := g.val(x.X), g.val(x.Index)
	elemT := derefType(x.Type())
	var arr, off, ln string
	switch u := x.X.Type().Underlying().(type) {
	case *types.Slice:
		arr, off, ln = sx("s-arr", cv.T), sx("s-off", cv.T), sx("s-len", cv.T)
	case *types.Pointer:
		at := u.Elem().Underlying().(*types.Array)
		g.safety("nil", x.Pos(), guard, not(eq(cv.T, "null")), "index")
		arr, off, ln = cv.T, "0", num(at.Len())
	default:
		g.unsupported("IndexAddr on %s", x.X.Type())
		g.vals[x] = g.fresh(x.Type(), "idxaddr")
		return
	}
	if c, ok := x.Index.(*ssa.Const); !ok || !constInRange(c, ln) {
		g.safety("bounds", x.Pos(), guard, and(sx("<=", "0", iv.T), sx("<", iv.T, ln)), "index", "range")
	}
	idx := iv.T
	if off != "0" {
		idx = sx("+", off, iv.T)
	}
	if _, isStruct := elemT.Underlying().(*types.Struct); isStruct {
		g.vals[x] = Val{T: g.elemRef(elemT, arr, idx), S: SRef, Ty: x.Type()}
		return
	}
	so := g.sortOf(elemT)
	g.vals[x] = Val{S: SRef, Ty: x.Type(), Addr: &Addr{Comp: g.elemComp(so), Ref: arr, Idx: idx, Ty: elemT}}
}

func constInRange(c *ssa.Const, ln string) bool {
	if c.Value == nil {
		return false
	}
	var n int64
	if _, err := fmt.Sscanf(ln, "%d", &n); err != nil {
		return false
	}
	i := c.Int64()
	return 0 <= i && i < n
}

func (g *Gen) lookup(b *ssa.BasicBlock, x *ssa.Lookup, h Heap) {
	guard := g.reach[b]
	cv, kv := g.val(x.X), g.val(x.Index)
	if cv.S == SStr {
		g.safety("bounds", x.Pos(), guard, and(sx("<=", "0", kv.T), sx("<", kv.T, sx("slen", cv.T))), "index")
		g.define(x, Val{T: sx("sat", cv.T, kv.T), S: SInt, Ty: x.Type()})
		g.S.assert(g.typeAssume(g.vals[x]))
		return
	}
	mt, ok := x.X.Type().Underlying().(*types.Map)
	if !ok {
		g.vals[x] = g.fresh(x.Type(), "lookup")
		return
	}
	ks, vs := g.sortOf(mt.Key()), g.sortOf(mt.Elem())
	if ks == "" || vs == "" {
		g.vals[x] = g.fresh(x.Type(), "lookup")
		return
	}
	md, mv := g.mapDomComp(ks, vs), g.mapValComp(ks, vs)
	dom := and(not(eq(cv.T, "null")), sel(sel(g.hget(h, md), cv.T), kv.T))
	val := Val{T: ite(dom, sel(sel(g.hget(h, mv), cv.T), kv.T), g.zero(mt.Elem()).T), S: vs, Ty: mt.Elem()}
	if x.CommaOk {
		n := g.S.freshName("mapval")
		g.S.declare(n, string(vs))
		g.S.assert(eq(n, val.T))
		val.T = n
		g.assumeLoaded(h, val)
		g.vals[x] = Val{Ty: x.Type(), Flds: []Val{val, {T: dom, S: SBool, Ty: types.Typ[types.Bool]}}}
		return
	}
	g.define(x, val)
	g.assumeLoaded(h, g.vals[x])
}

func (g *Gen) slice(b *ssa.BasicBlock, x *ssa.Slice, h Heap) Heap {
	guard := g.reach[b]
	cv := g.val(x.X)
	lo := "0"
	if x.Low != nil {
		lo = g.val(x.Low).T
	}
	switch u := x.X.Type().Underlying().(type) {
	case *types.Basic: // string
		hi := sx("slen", cv.T)
		if x.High != nil {
			hi = g.val(x.High).T
		}
		g.safety("bounds", x.Pos(), guard, and(sx("<=", "0", lo), sx("<=", lo, hi), sx("<=", hi, sx("slen", cv.T))), "slice")
		if lo == "0" && x.High == nil {
			g.vals[x] = cv
			return h
		}
		g.define(x, Val{T: sx("str.sub", cv.T, lo, hi), S: SStr, Ty: x.Type()})
		return h
	case *types.Slice:
		hi := sx("s-len", cv.T)
		if x.High != nil {
			hi = g.val(x.High).T
		}
		capT := sx("s-cap", cv.T)
		mx := capT
		if x.Max != nil {
			mx = g.val(x.Max).T
		}
		if !(lo == "0" && x.High == nil && x.Max == nil) {
			g.safety("bounds", x.Pos(), guard, and(sx("<=", "0", lo), sx("<=", lo, hi), sx("<=", hi, mx), sx("<=", mx, capT)), "slice")
		}
		g.define(x, Val{T: sx("mk-slice", sx("s-arr", cv.T), sx("+", sx("s-off", cv.T), lo), sx("-", hi, lo), sx("-", mx, lo)), S: SSlice, Ty: x.Type()})
		return h
	case *types.Pointer:
		at := u.Elem().Underlying().(*types.Array)
		n := num(at.Len())
		hi := n
		if x.High != nil {
			hi = g.val(x.High).T
		}
		g.safety("nil", x.Pos(), guard, not(eq(cv.T, "null")), "slice", "lit", "call")
		if x.Low != nil || x.High != nil {
			g.safety("bounds", x.Pos(), guard, and(sx("<=", "0", lo), sx("<=", lo, hi), sx("<=", hi, n)), "slice")
		}
		g.define(x, Val{T: sx("mk-slice", cv.T, lo, sx("-", hi, lo), sx("-", n, lo)), S: SSlice, Ty: x.Type()})
		return h
	}
	g.unsupported("slice of %s", x.X.Type())
	g.vals[x] = g.fresh(x.Type(), "slice")
	return h
}

func elemSize(t types.Type) int64 {
	switch u := t.Underlying().(type) {
	case *types.Basic:
		switch u.Kind() {
		case types.Uint8, types.Int8, types.Bool:
			return 1
		case types.String:
			return 16
		}
		return 8
	case *types.Slice:
		return 24
	case *types.Interface:
		return 16
	}
	return 8
}

func (g *Gen) makeSlice(b *ssa.BasicBlock, x *ssa.MakeSlice, h Heap) Heap {
	guard := g.reach[b]
	ln, cp := g.val(x.Len), g.val(x.Cap)
	et := x.Type().Underlying().(*types.Slice).Elem()
	if _, isConst := x.Len.(*ssa.Const); !isConst {
		maxN := int64(1) << 47 / elemSize(et)
		g.safety("alloc", x.Pos(), guard, and(sx("<=", "0", ln.T), sx("<=", ln.T, cp.T), sx("<=", cp.T, num(maxN))), "call")
		if g.FC != nil && g.mode.Contracts {
			if bnd, ok := g.FC.Flags["alloc_bounded_by"]; ok {
				e, err := ParseExpr(bnd)
				if err == nil {
					env := g.newEnv(h, g.entryHeap, b)
					if bv, err := env.eval(e); err == nil {
						g.oblige("alloc-bound", g.anchorText(x.Pos(), "call"), "alloc_bounded_by "+bnd, guard, sx("<=", cp.T, bv.T), x.Pos())
					} else {
						g.unsupported("alloc_bounded_by %q: %v", bnd, err)
					}
				}
			}
		}
	}
	r, h2 := g.freshRef(h, "make")
	so := g.sortOf(et)
	if so != "" {
		comp := g.elemComp(so)
		h2 = h2.clone()
		h2[comp] = store(g.hget(h2, comp), r, fmt.Sprintf("((as const (Array Int %s)) %s)", so, g.zero(et).T))
	}
	g.define(x, Val{T: sx("mk-slice", r, "0", ln.T, cp.T), S: SSlice, Ty: x.Type()})
	return h2
}

func (g *Gen) convert(b *ssa.BasicBlock, x *ssa.Convert, h Heap) Heap {
	h2 := g.convert1(b, x, h)
	if h2 != nil {
		return h2
	}
	return h
}

// bytesOfString allocates the []byte copy of a string.
func (g *Gen) bytesOfString(h Heap, s Val, t types.Type) (Val, Heap) {
	r, h2 := g.freshRef(h, "bytesof")
	comp := g.elemComp(SInt)
	a := g.S.freshName("bytesof.arr")
	g.S.declare(a, "(Array Int Int)")
	g.S.assert(fmt.Sprintf("(forall ((i Int)) (! (=> (and (<= 0 i) (< i (slen %s))) (= (select %s i) (sat %s i))) :pattern ((select %s i))))", s.T, a, s.T, a))
	g.S.assert(eq(sx("str.ofbytes", a, "0", sx("slen", s.T)), s.T))
	h2 = h2.clone()
	h2[comp] = store(g.hget(h2, comp), r, a)
	n := sx("slen", s.T)
	return Val{T: sx("mk-slice", r, "0", n, n), S: SSlice, Ty: t}, h2
}

func (g *Gen) convert1(b *ssa.BasicBlock, x *ssa.Convert, h Heap) Heap {
	v := g.val(x.X)
	from, to := x.X.Type().Underlying(), x.Type().Underlying()
	fs, ts := g.sortOf(x.X.Type()), g.sortOf(x.Type())
	switch {
	case fs == SInt && ts == SInt:
		lo, hi, _ := intRange(x.Type())
		flo, fhi, _ := intRange(x.X.Type())
		if lo == flo && hi == fhi || (lo == minI64 && hi == maxI64 && flo != "0") || (flo == "0" && fhi != "18446744073709551615" && lo == minI64) {
			g.vals[x] = retype(v, x.Type())
			return nil
		}
		g.define(x, Val{T: wrapTo(v.T, x.Type(), false), S: SInt, Ty: x.Type()})
	case fs == SSlice && ts == SStr:
		// string(bytes)
		et := from.(*types.Slice).Elem()
		comp := g.elemComp(g.sortOf(et))
		g.define(x, Val{T: sx("str.ofbytes", sel(g.hget(h, comp), sx("s-arr", v.T)), sx("s-off", v.T), sx("s-len", v.T)), S: SStr, Ty: x.Type()})
	case fs == SStr && ts == SSlice:
		bv, h2 := g.bytesOfString(h, v, x.Type())
		g.define(x, bv)
		return h2
	case fs == SInt && ts == SStr:
		g.vals[x] = g.fresh(x.Type(), "runestr")
	case fs == SF64 && ts == SF64:
		g.vals[x] = retype(v, x.Type())
	case fs == SInt && ts == SF64:
		g.define(x, Val{T: sx("f.ofint", v.T), S: SF64, Ty: x.Type()})
	case fs == SF64 && ts == SInt:
		r := g.fresh(x.Type(), "f2i")
		g.Assumed["float64 -> integer conversions are unconstrained (floats are abstract)"] = true
		g.vals[x] = r
	default:
		_ = to
		g.vals[x] = g.fresh(x.Type(), "conv")
		g.Assumed[fmt.Sprintf("conversion %s -> %s unconstrained", x.X.Type(), x.Type())] = true
	}
	return nil
}

func (g *Gen) typeAssert(b *ssa.BasicBlock, x *ssa.TypeAssert, h Heap) {
	guard := g.reach[b]
	v := g.val(x.X)
	var ok string
	var res Val
	if _, isIface := x.AssertedType.Underlying().(*types.Interface); isIface {
		okv := g.fresh(types.Typ[types.Bool], "implements")
		ok = and(okv.T, not(eq(sx("i-typ", v.T), "0")))
		res = retype(v, x.AssertedType)
	} else {
		id := g.typeID(x.AssertedType)
		ok = eq(sx("i-typ", v.T), num(int64(id)))
		so := g.sortOf(x.AssertedType)
		if so == "" {
			res = g.fresh(x.AssertedType, "unboxed")
		} else {
			_, uf := g.S.box(so)
			res = Val{T: ite(ok, sx(uf, sx("i-box", v.T)), g.zero(x.AssertedType).T), S: so, Ty: x.AssertedType}
			n := g.S.freshName("assert")
			g.S.declare(n, string(so))
			g.S.assert(eq(n, res.T))
			res.T = n
			g.assumeLoaded(h, res)
		}
	}
	if x.CommaOk {
		g.vals[x] = Val{Ty: x.Type(), Flds: []Val{res, {T: ok, S: SBool, Ty: types.Typ[types.Bool]}}}
		return
	}
	g.safety("assert-type", x.Pos(), guard, ok, "assert")
	g.vals[x] = res
}

func (g *Gen) next(b *ssa.BasicBlock, x *ssa.Next, h Heap) {
	it := g.val(x.Iter)
	okv := g.fresh(types.Typ[types.Bool], "next.ok")
	tup := x.Type().(*types.Tuple)
	k := g.fresh(tup.At(1).Type(), "next.k")
	v := g.fresh(tup.At(2).Type(), "next.v")
	if !x.IsString {
		if mt, ok := it.Ty.Underlying().(*types.Map); ok {
			ks, vs := g.sortOf(mt.Key()), g.sortOf(mt.Elem())
			if ks != "" && vs != "" && k.S != "" && v.S != "" {
				md, mv := g.mapDomComp(ks, vs), g.mapValComp(ks, vs)
				cs := []string{not(eq(it.T, "null"))}
				if !isInvalidType(tup.At(1).Type()) {
					cs = append(cs, sel(sel(g.hget(h, md), it.T), k.T))
					if !isInvalidType(tup.At(2).Type()) {
						cs = append(cs, eq(v.T, sel(sel(g.hget(h, mv), it.T), k.T)))
					}
				}
				g.S.assert(imp(okv.T, and(cs...)))
			}
		}
		g.Assumed["range over map: iteration order nondeterministic, termination assumed (finite map)"] = true
	}
	g.vals[x] = Val{Ty: x.Type(), Flds: []Val{okv, k, v}}
}

// resolveStaticFn finds the unique function stored in a closure cell (free variable or local alloc).
func (g *Gen) resolveStaticFn(addr ssa.Value) *ssa.Function {
	switch a := addr.(type) {
	case *ssa.FreeVar:
		parent := g.Fn.Parent()
		if parent == nil {
			return nil
		}
		idx := -1
		for i, fv := range g.Fn.FreeVars {
			if fv == a {
				idx = i
			}
		}
		// find MakeClosure of g.Fn in parent and the binding
		for _, b := range parent.Blocks {
			for _, ins := range b.Instrs {
				mc, ok := ins.(*ssa.MakeClosure)
				if !ok || mc.Fn != g.Fn || idx >= len(mc.Bindings) {
					continue
				}
				return uniqueStoredFn(parent, mc.Bindings[idx])
			}
		}
	case *ssa.Alloc:
		return uniqueStoredFn(g.Fn, a)
	}
	return nil
}

func uniqueStoredFn(fn *ssa.Function, cell ssa.Value) *ssa.Function {
	var found *ssa.Function
	n := 0
	for _, b := range fn.Blocks {
		for _, ins := range b.Instrs {
			st, ok := ins.(*ssa.Store)
			if !ok || st.Addr != cell {
				continue
			}
			n++
			switch v := st.Val.(type) {
			case *ssa.MakeClosure:
				found = v.Fn.(*ssa.Function)
			case *ssa.Function:
				found = v
			}
		}
	}
	if n == 1 {
		return found
	}
	return nil
}

var _ = strings.TrimSpace

// isInvalidType reports the placeholder type go/ssa gives an unused component of a range tuple.
func isInvalidType(t types.Type) bool {
	b, ok := t.(*types.Basic)
	return ok && b.Kind() == types.Invalid
}
