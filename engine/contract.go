package engine

import (
	"bufio"
	"fmt"
	"os"
	"path/filepath"
	"sort"
	"strconv"
	"strings"
)

// Clause is one //@ line inside a block.
type Clause struct {
	Kind string // requires ensures invariant decreases assigns ...
	Text string
	Expr Expr // parsed (nil for assigns/flags)
	File string
	Line int
}

type LoopSpec struct {
	Ordinal    int
	EntryAsserts []*Clause // proved when the loop is entered; neither assumed nor preserved
	Invariants []*Clause
	Decreases  *Clause
	Diverges   bool
	WorkBound  *Clause
}

// ExceptClause is a postcondition that every registered executor must satisfy, except the executors of the listed commands.
type ExceptClause struct {
	Names  []string
	Clause *Clause
}

// FuncContract is the contract of one function / closure / interface method / extern / functype.
type FuncContract struct {
	Key       string // e.g. proto.(*Parser).nextLengthBytes ; executor:GETRANGE ; interface:io.Reader.Read ; extern:strconv.Atoi
	Kind      string // func executor interface extern functype
	Pkg       string // package name of the declaring contract file ("" for external file)
	Requires  []*Clause
	Captured  []*Clause // requires about captured variables of a closure: assumed in the body, established at closure creation (listed as assumption)
	Ensures   []*Clause
	EnsuresExcept []ExceptClause // functype only: postconditions of every executor except the named commands
	Assigns   []string // heap components / ghost names; nil = default
	HasAssign bool
	Loops     map[int]*LoopSpec
	Decreases *Clause // recursion measure
	Flags     map[string]string
	Spawned   []*Define // ghost bookkeeping applied where the function is started with a go statement
	Defines   []*Define // ghost bookkeeping defined by this function's result (assumed at call sites, not checked in the body)
	Props     []string // property ids this contract's obligations belong to ("" = by function map)
	Params    []string // explicit parameter names for interface/extern/functype contracts
	File      string
	Line      int
}

// Define is "defines <designator>: <expr>": after the call the ghost location holds expr (evaluated in the post-state, old() allowed).
type Define struct {
	Target string
	Expr   Expr
	Text   string
}

type GhostVar struct {
	Name string
	Type string // int bool string bytes ref iface  | map:<key>:<val>
	Pkg  string
}

type SpecFunc struct {
	Name   string
	Params []SpecParam
	Ret    string
	Body   Expr // nil = uninterpreted
	Pkg    string
}
type SpecParam struct{ Name, Type string }

type Axiom struct {
	Name string
	Expr Expr
	Text string
	Pkg  string
}

type StructInv struct {
	Pkg, Type string
	Clause    *Clause
}

type ContractSet struct {
	Funcs   map[string]*FuncContract
	Ghosts  map[string]*GhostVar
	Specs   map[string]*SpecFunc
	Axioms  []*Axiom
	Invs    []*StructInv
	Files   []string
	Trusted []string // keys flagged trusted
}

func newContractSet() *ContractSet {
	return &ContractSet{Funcs: map[string]*FuncContract{}, Ghosts: map[string]*GhostVar{}, Specs: map[string]*SpecFunc{}}
}

// loadContracts reads every contracts_verif*.go of the loaded repo packages and /verif/contracts/*.contracts.
func (p *Program) loadContracts() (*ContractSet, error) {
	cs := newContractSet()
	var files []string
	seen := map[string]bool{}
	for _, pkg := range p.Pkgs {
		for _, f := range pkg.CompiledGoFiles {
			if b := filepath.Base(f); strings.HasPrefix(b, "contracts_") && strings.HasSuffix(b, "verif.go") && !seen[f] {
				seen[f] = true
				files = append(files, f)
				if err := cs.parseFile(f, pkg.Name); err != nil {
					return nil, err
				}
			}
		}
	}
	ext := os.Getenv("VERIF_HOME")
	if ext == "" {
		ext = "/verif"
	}
	extFiles, _ := filepath.Glob(filepath.Join(ext, "contracts", "*.contracts"))
	sort.Strings(extFiles)
	for _, f := range extFiles {
		files = append(files, f)
		if err := cs.parseFile(f, ""); err != nil {
			return nil, err
		}
	}
	cs.Files = files
	return cs, nil
}

func (cs *ContractSet) parseFile(path, pkg string) error {
	fh, err := os.Open(path)
	if err != nil {
		return err
	}
	defer fh.Close()
	sc := bufio.NewScanner(fh)
	sc.Buffer(make([]byte, 1<<20), 1<<20)
	var cur *FuncContract
	var curLoop *LoopSpec
	var dupErr error
	ln := 0
	var pending string
	pendLine := 0
	flush := func(line string, lineNo int) error {
		line = strings.TrimSpace(line)
		if line == "" {
			return nil
		}
		fail := func(f string, a ...any) error {
			return fmt.Errorf("%s:%d: %s", path, lineNo, fmt.Sprintf(f, a...))
		}
		word, rest := splitWord(line)
		mk := func(kind, key string) *FuncContract {
			fc := &FuncContract{Key: key, Kind: kind, Pkg: pkg, Loops: map[int]*LoopSpec{}, Flags: map[string]string{}, File: path, Line: lineNo}
			if old, ok := cs.Funcs[key]; ok {
				// a second block for the same function would silently replace the first: refuse it
				dupErr = fmt.Errorf("%s:%d: contract block %q is already declared at %s:%d", path, lineNo, key, old.File, old.Line)
			}
			cs.Funcs[key] = fc
			curLoop = nil
			return fc
		}
		parseClause := func(kind, text string) (*Clause, error) {
			body := text
			if strings.HasPrefix(strings.TrimSpace(body), "{") {
				if i := strings.Index(body, "}"); i >= 0 {
					body = body[i+1:]
				}
			}
			e, err := ParseExpr(body)
			if err != nil {
				return nil, fail("%s: %v", kind, err)
			}
			return &Clause{Kind: kind, Text: text, Expr: e, File: path, Line: lineNo}, nil
		}
		switch word {
		case "func":
			key := rest
			if pkg != "" {
				key = pkg + "." + rest
			}
			if _, dup := cs.Funcs[key]; dup {
				return fail("duplicate contract for %s", key)
			}
			cur = mk("func", key)
		case "executor":
			name := strings.Trim(rest, "\" ")
			cur = mk("executor", "executor:"+name)
		case "interface", "extern", "functype":
			// interface io.Reader.Read(p) / extern strconv.Atoi(s)
			name, params := rest, []string(nil)
			if i := strings.LastIndex(rest, "("); i >= 0 && strings.HasSuffix(rest, ")") && !strings.HasSuffix(rest[:i], ".") {
				name = strings.TrimSpace(rest[:i])
				for _, q := range strings.Split(rest[i+1:len(rest)-1], ",") {
					if q = strings.TrimSpace(q); q != "" {
						params = append(params, q)
					}
				}
			}
			cur = mk(word, word+":"+name)
			cur.Params = params
		case "ghost":
			// ghost var name type | ghost map name keytype valtype
			fs := strings.Fields(rest)
			if len(fs) >= 3 {
				if _, dup := cs.Ghosts[fs[1]]; dup {
					return fail("ghost %s is already declared; ghost state shares one namespace", fs[1])
				}
			}
			if len(fs) == 3 && fs[0] == "var" {
				cs.Ghosts[fs[1]] = &GhostVar{Name: fs[1], Type: fs[2], Pkg: pkg}
			} else if len(fs) >= 4 && fs[0] == "map" {
				cs.Ghosts[fs[1]] = &GhostVar{Name: fs[1], Type: "map:" + fs[2] + ":" + strings.Join(fs[3:], " "), Pkg: pkg}
			} else {
				return fail("bad ghost declaration")
			}
			cur, curLoop = nil, nil
		case "spec":
			sf, err := parseSpecFunc(rest)
			if err != nil {
				return fail("%v", err)
			}
			sf.Pkg = pkg
			if prev, dup := cs.Specs[sf.Name]; dup {
				return fail("spec func %s is already declared (package %s); spec functions share one namespace", sf.Name, prev.Pkg)
			}
			cs.Specs[sf.Name] = sf
			cur, curLoop = nil, nil
		case "axiom":
			i := strings.Index(rest, ":")
			if i < 0 {
				return fail("axiom needs name:")
			}
			e, err := ParseExpr(rest[i+1:])
			if err != nil {
				return fail("axiom: %v", err)
			}
			cs.Axioms = append(cs.Axioms, &Axiom{Name: strings.TrimSpace(rest[:i]), Expr: e, Text: rest[i+1:], Pkg: pkg})
			cur, curLoop = nil, nil
		case "invariant_struct":
			// invariant_struct Array: expr
			i := strings.Index(rest, ":")
			if i < 0 {
				return fail("invariant_struct needs Type:")
			}
			c, err := parseClause("struct-inv", rest[i+1:])
			if err != nil {
				return err
			}
			cs.Invs = append(cs.Invs, &StructInv{Pkg: pkg, Type: strings.TrimSpace(rest[:i]), Clause: c})
			cur, curLoop = nil, nil
		case "requires_captured":
			if cur == nil {
				return fail("requires_captured outside a block")
			}
			c, err := parseClause("requires", rest)
			if err != nil {
				return err
			}
			cur.Captured = append(cur.Captured, c)
		case "requires", "ensures":
			if cur == nil {
				return fail("%s outside a block", word)
			}
			c, err := parseClause(word, rest)
			if err != nil {
				return err
			}
			if word == "requires" {
				cur.Requires = append(cur.Requires, c)
			} else {
				cur.Ensures = append(cur.Ensures, c)
			}
		case "ensures_except":
			// ensures_except CMD1,CMD2 <clause>
			if cur == nil {
				return fail("ensures_except outside a block")
			}
			names, body := splitWord(rest)
			c, err := parseClause("ensures", body)
			if err != nil {
				return err
			}
			cur.EnsuresExcept = append(cur.EnsuresExcept, ExceptClause{Names: strings.Split(names, ","), Clause: c})
		case "spawned":
			if cur == nil {
				return fail("spawned outside a block")
			}
			i := strings.Index(rest, ":")
			if i < 0 {
				return fail("spawned needs target: expr")
			}
			e, err := ParseExpr(rest[i+1:])
			if err != nil {
				return fail("spawned: %v", err)
			}
			cur.Spawned = append(cur.Spawned, &Define{Target: strings.TrimSpace(rest[:i]), Expr: e, Text: rest})
		case "defines":
			if cur == nil {
				return fail("defines outside a block")
			}
			i := strings.Index(rest, ":")
			if i < 0 {
				return fail("defines needs target: expr")
			}
			e, err := ParseExpr(rest[i+1:])
			if err != nil {
				return fail("defines: %v", err)
			}
			cur.Defines = append(cur.Defines, &Define{Target: strings.TrimSpace(rest[:i]), Expr: e, Text: rest})
		case "assigns":
			if cur == nil {
				return fail("assigns outside a block")
			}
			cur.HasAssign = true
			for _, a := range splitTopLevel(rest) {
				if a = strings.TrimSpace(a); a != "" && a != "nothing" {
					cur.Assigns = append(cur.Assigns, a)
				}
			}
		case "loop":
			if cur == nil {
				return fail("loop outside a block")
			}
			k, err := strconv.Atoi(strings.TrimSpace(rest))
			if err != nil {
				return fail("loop ordinal: %v", err)
			}
			curLoop = &LoopSpec{Ordinal: k}
			cur.Loops[k] = curLoop
		case "entry_assert":
			if curLoop == nil {
				return fail("entry_assert outside a loop")
			}
			c, err := parseClause("entry_assert", rest)
			if err != nil {
				return err
			}
			curLoop.EntryAsserts = append(curLoop.EntryAsserts, c)
		case "invariant":
			if curLoop == nil {
				return fail("invariant outside a loop")
			}
			c, err := parseClause("invariant", rest)
			if err != nil {
				return err
			}
			curLoop.Invariants = append(curLoop.Invariants, c)
		case "decreases":
			if cur == nil {
				return fail("decreases outside a block")
			}
			c, err := parseClause("decreases", rest)
			if err != nil {
				return err
			}
			if curLoop != nil {
				curLoop.Decreases = c
			} else {
				cur.Decreases = c
			}
		case "work_bounded_by":
			if curLoop == nil {
				return fail("work_bounded_by outside a loop")
			}
			c, err := parseClause("work", rest)
			if err != nil {
				return err
			}
			curLoop.WorkBound = c
		case "diverges":
			if curLoop == nil {
				return fail("diverges outside a loop")
			}
			curLoop.Diverges = true
		case "props":
			if cur == nil {
				return fail("props outside a block")
			}
			cur.Props = strings.Fields(strings.ReplaceAll(rest, ",", " "))
		case "flag":
			if cur == nil {
				return fail("flag outside a block")
			}
			k, v := splitWord(rest)
			cur.Flags[k] = v
		case "trusted":
			if cur == nil {
				return fail("trusted outside a block")
			}
			cur.Flags["trusted"] = rest
			cs.Trusted = append(cs.Trusted, cur.Key)
		default:
			return fail("unknown clause %q", word)
		}
		return nil
	}
	for sc.Scan() {
		ln++
		t := strings.TrimSpace(sc.Text())
		if !strings.HasPrefix(t, "//@") {
			if strings.HasPrefix(t, "#@") { // external contract files may use #@ too
				t = "//@" + t[2:]
			} else {
				continue
			}
		}
		body := strings.TrimSpace(t[3:])
		if i := strings.Index(body, " //"); i >= 0 { // trailing comment
			body = strings.TrimSpace(body[:i])
		}
		// continuation: a line starting with "|" continues the previous clause
		if strings.HasPrefix(body, "|") {
			pending += " " + strings.TrimSpace(body[1:])
			continue
		}
		if pending != "" {
			if err := flush(pending, pendLine); err != nil {
				return err
			}
		}
		pending, pendLine = body, ln
	}
	if pending != "" {
		if err := flush(pending, pendLine); err != nil {
			return err
		}
	}
	if dupErr != nil {
		return dupErr
	}
	return sc.Err()
}

func splitWord(s string) (string, string) {
	s = strings.TrimSpace(s)
	i := strings.IndexAny(s, " \t")
	if i < 0 {
		return s, ""
	}
	return s[:i], strings.TrimSpace(s[i+1:])
}

// spec func name(a int, b string) int = expr      (body optional: uninterpreted)
func parseSpecFunc(s string) (*SpecFunc, error) {
	w, rest := splitWord(s)
	if w != "func" {
		return nil, fmt.Errorf("expected 'spec func'")
	}
	i := strings.Index(rest, "(")
	j := matchParen(rest, i)
	if i < 0 || j < 0 {
		return nil, fmt.Errorf("bad spec func header")
	}
	sf := &SpecFunc{Name: strings.TrimSpace(rest[:i])}
	for _, q := range strings.Split(rest[i+1:j], ",") {
		fs := strings.Fields(q)
		if len(fs) == 0 {
			continue
		}
		if len(fs) != 2 {
			return nil, fmt.Errorf("bad spec param %q", q)
		}
		sf.Params = append(sf.Params, SpecParam{fs[0], fs[1]})
	}
	tail := strings.TrimSpace(rest[j+1:])
	if k := strings.Index(tail, "="); k >= 0 {
		sf.Ret = strings.TrimSpace(tail[:k])
		e, err := ParseExpr(tail[k+1:])
		if err != nil {
			return nil, err
		}
		sf.Body = e
	} else {
		sf.Ret = tail
	}
	if sf.Ret == "" {
		return nil, fmt.Errorf("spec func needs a result type")
	}
	return sf, nil
}

func matchParen(s string, i int) int {
	if i < 0 {
		return -1
	}
	d := 0
	for k := i; k < len(s); k++ {
		switch s[k] {
		case '(':
			d++
		case ')':
			d--
			if d == 0 {
				return k
			}
		}
	}
	return -1
}

// splitTopLevel splits at commas that are not inside parentheses or brackets.
func splitTopLevel(s string) []string {
	var out []string
	depth, start := 0, 0
	for i, c := range s {
		switch c {
		case '(', '[':
			depth++
		case ')', ']':
			depth--
		case ',':
			if depth == 0 {
				out = append(out, s[start:i])
				start = i + 1
			}
		}
	}
	return append(out, s[start:])
}
