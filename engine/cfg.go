package engine

import (
	"sort"

	"golang.org/x/tools/go/ssa"
)

// analyzeCFG finds back edges, natural loops and a topological order of the loop-cut DAG.
func (g *Gen) analyzeCFG() {
	fn := g.Fn
	g.backEdge = map[[2]int]bool{}
	g.loops = map[*ssa.BasicBlock]*loopInfo{}
	reachable := map[*ssa.BasicBlock]bool{}
	var dfs func(b *ssa.BasicBlock)
	dfs = func(b *ssa.BasicBlock) {
		if reachable[b] {
			return
		}
		reachable[b] = true
		for _, s := range b.Succs {
			dfs(s)
		}
	}
	if len(fn.Blocks) == 0 {
		return
	}
	dfs(fn.Blocks[0])
	for _, b := range fn.Blocks {
		if !reachable[b] {
			continue
		}
		for _, s := range b.Succs {
			if s.Dominates(b) {
				g.backEdge[[2]int{b.Index, s.Index}] = true
				li := g.loops[s]
				if li == nil {
					li = &loopInfo{head: s, body: map[*ssa.BasicBlock]bool{s: true}, havoc: map[string]bool{}}
					g.loops[s] = li
				}
				li.backs = append(li.backs, b)
				// natural loop: nodes that reach b without passing s
				var stack []*ssa.BasicBlock
				if !li.body[b] {
					li.body[b] = true
					stack = append(stack, b)
				}
				for len(stack) > 0 {
					x := stack[len(stack)-1]
					stack = stack[:len(stack)-1]
					for _, p := range x.Preds {
						if reachable[p] && !li.body[p] {
							li.body[p] = true
							stack = append(stack, p)
						}
					}
				}
			}
		}
	}
	var heads []*ssa.BasicBlock
	for h := range g.loops {
		heads = append(heads, h)
	}
	sort.Slice(heads, func(i, j int) bool { return heads[i].Index < heads[j].Index })
	g.loopList = nil
	for i, h := range heads {
		g.loops[h].ordinal = i
		g.loopList = append(g.loopList, g.loops[h])
	}
	// topological order ignoring back edges (reverse postorder)
	seen := map[*ssa.BasicBlock]bool{}
	var post []*ssa.BasicBlock
	var visit func(b *ssa.BasicBlock)
	visit = func(b *ssa.BasicBlock) {
		if seen[b] {
			return
		}
		seen[b] = true
		for i := len(b.Succs) - 1; i >= 0; i-- {
			s := b.Succs[i]
			if g.backEdge[[2]int{b.Index, s.Index}] {
				continue
			}
			visit(s)
		}
		post = append(post, b)
	}
	visit(fn.Blocks[0])
	g.order = nil
	for i := len(post) - 1; i >= 0; i-- {
		g.order = append(g.order, post[i])
	}
}

// innermostLoop returns the innermost loop containing b (nil if none).
func (g *Gen) innermostLoop(b *ssa.BasicBlock) *loopInfo {
	var best *loopInfo
	for _, li := range g.loopList {
		if li.body[b] {
			if best == nil || len(li.body) < len(best.body) {
				best = li
			}
		}
	}
	return best
}
