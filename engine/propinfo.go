package engine

import (
	"bufio"
	"os"
	"path/filepath"
	"strings"
	"sync"
)

// Per-property lists that go into every evidence file: what the check does NOT decide, and assumptions that are specific to the
// property (the assumptions met while generating the obligations are collected separately). Source: /verif/contracts/limits.txt,
// one entry per line:  Cxx | not-decided | text      or      Cxx | assumption | text

var (
	propInfoOnce    sync.Once
	propNotDecided  = map[string][]string{}
	propAssumptions = map[string][]string{}
)

func loadPropInfo() {
	fh, err := os.Open(filepath.Join(verifHome(), "contracts", "limits.txt"))
	if err != nil {
		return
	}
	defer fh.Close()
	sc := bufio.NewScanner(fh)
	sc.Buffer(make([]byte, 1<<20), 1<<20)
	for sc.Scan() {
		ln := strings.TrimSpace(sc.Text())
		if ln == "" || strings.HasPrefix(ln, "#") {
			continue
		}
		ps := strings.SplitN(ln, "|", 3)
		if len(ps) != 3 {
			continue
		}
		id, kind, text := strings.TrimSpace(ps[0]), strings.TrimSpace(ps[1]), strings.TrimSpace(ps[2])
		switch kind {
		case "not-decided":
			propNotDecided[id] = append(propNotDecided[id], text)
		case "assumption":
			propAssumptions[id] = append(propAssumptions[id], text)
		}
	}
}

func notDecided(prop string) []string {
	propInfoOnce.Do(loadPropInfo)
	return propNotDecided[prop]
}

func baseAssumptions(prop string) []string {
	propInfoOnce.Do(loadPropInfo)
	return propAssumptions[prop]
}
