package engine

// notDecided lists the clauses of each property that this family of technique does not decide.
func notDecided(prop string) []string {
	return propNotDecided[prop]
}

func baseAssumptions(prop string) []string {
	return propAssumptions[prop]
}

var propNotDecided = map[string][]string{}
var propAssumptions = map[string][]string{}
