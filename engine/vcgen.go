package engine

import (
	"hash/fnv"
	"fmt"
	"go/ast"
	"go/constant"
	"go/token"
	"go/types"
	"math"
	"sort"
	"strings"

	"golang.org/x/tools/go/ast/astutil"
	"golang.org/x/tools/go/ssa"
)

// Heap maps component name -> current SMT term. A missing component denotes its initial symbol.
type Heap map[string]string

func (h Heap) clone() Heap {
	n := make(Heap, len(h)+1)
	for k, v := range h {
		n[k] = v
	}
	return n
}

// Obligation is one proof obligation: under Guard (path condition) Goal must hold.
type Obligation struct {
	Name   string
	Kind   string
	Fn     string
	Anchor string
	Clause string
	Guard  string
	Goal   string
	Pos    token.Pos
	// results
	Status  string // proved refuted undecided
	Solver  string
	TimeS   float64
	Model   string
	Output  string
	Bounded bool
	File    string
	Reproduced bool
	// for replay
	Gen *Gen
}

// Gen generates the verification conditions of one SSA function.
type Gen struct {
	loopEntry map[*ssa.BasicBlock]string // entry condition of each loop head
	P  *Program
	Fn *ssa.Function
	FC *FuncContract // own contract (may be nil)
	FT *FuncContract // functype contract for executors (may be nil)
	S  *smtScript

	vals     map[ssa.Value]Val
	reach    map[*ssa.BasicBlock]string
	heapOut  map[*ssa.BasicBlock]Heap
	heapIn   map[*ssa.BasicBlock]Heap
	compSort map[string]string
	allComps []string // from the previous pass ("*" havoc support)
	order    []*ssa.BasicBlock
	loops    map[*ssa.BasicBlock]*loopInfo
	loopList []*loopInfo
	backEdge map[[2]int]bool

	Obls     []*Obligation
	anchorN  map[string]int
	Warnings []string
	Unsupported []string
	Assumed  map[string]bool // external calls / assumptions used
	names    map[string][]namedVal
	defers   []*ssa.Defer
	params   map[string]Val
	entryHeap Heap
	curBlock *ssa.BasicBlock
	mode     GenMode
	autoInv  map[*ssa.BasicBlock][]string // surviving auto invariant candidates (text form ids)
	candInv  map[*ssa.BasicBlock][]autoCand
	typeIDs  map[string]int
	staticFn map[ssa.Value]*ssa.Function
	invKnown map[int]string
	sweepOnly bool
	retBlocks []*ssa.BasicBlock
	entryAssume []string
	dropped  map[string]bool
	usedAllHavoc bool
	curAll   bool
	sentinels []string
	scan     bool
	scanRes  *Gen
	blockWrites map[int]map[string]bool
	blockAll map[int]bool
	invAssumed map[string]bool
	initMaps []string
	AutoInv  []string
	frameDone bool
	frameOK bool
	frameWhole map[string]bool
	frameAllowed map[string][]string
	frameAssigns []string
	Vacuous  []string
	nilDone  map[string][]*ssa.BasicBlock
}

type GenMode struct {
	Sweep bool // generate safety obligations (nil/bounds/alloc/div/assert-type/panic)
	Contracts bool // generate post/inv/dec/pre obligations
}

type namedVal struct {
	v      ssa.Value
	isAddr bool
	blk    *ssa.BasicBlock
	idx    int
}

type loopInfo struct {
	head    *ssa.BasicBlock
	body    map[*ssa.BasicBlock]bool
	backs   []*ssa.BasicBlock
	ordinal int
	spec    *LoopSpec
	havoc   map[string]bool
	all     bool
	preHeap Heap // merged heap on entry edges
	decAtHead string
	headHeap Heap
	entryVals map[*ssa.Phi]Val
}

type autoCand struct {
	id   string
	expr func(phiVal func(*ssa.Phi) Val, h Heap) string
}

func (g *Gen) warn(f string, a ...any) {
	g.Warnings = append(g.Warnings, fmt.Sprintf(f, a...))
}
func (g *Gen) unsupported(f string, a ...any) {
	g.Unsupported = append(g.Unsupported, fmt.Sprintf(f, a...))
}

// ---------------------------------------------------------------- heap access

func (g *Gen) regComp(name, sort string) {
	if old, ok := g.compSort[name]; ok && old != sort {
		g.warn("component %s has two sorts %s / %s", name, old, sort)
	}
	g.compSort[name] = sort
}

func (g *Gen) initSym(comp string) string {
	s := qsym(comp + "@0")
	g.S.declare(s, g.compSort[comp])
	return s
}

func (g *Gen) hget(h Heap, comp string) string {
	if t, ok := h[comp]; ok {
		return t
	}
	return g.initSym(comp)
}

func (g *Gen) fieldComp(T types.Type, f *types.Var) (string, Sort) {
	so := g.sortOf(f.Type())
	name := compF(T, f.Name())
	g.regComp(name, arrSort("Ref", string(so)))
	return name, so
}
func (g *Gen) elemComp(so Sort) string {
	name := compE(so)
	g.regComp(name, arrSort("Ref", arrSort("Int", string(so))))
	return name
}
func (g *Gen) cellComp(so Sort) string {
	name := compC(so)
	g.regComp(name, arrSort("Ref", string(so)))
	return name
}
func (g *Gen) allocComp() string {
	g.regComp("ALLOC", "(Array Ref Bool)")
	return "ALLOC"
}
func (g *Gen) ghostComp(gv *GhostVar) (string, Sort, Sort) {
	name := "G|" + gv.Name
	if strings.HasPrefix(gv.Type, "map:") {
		ps := strings.SplitN(gv.Type, ":", 3)
		k, v := g.specSort(ps[1]), g.specSort(ps[2])
		g.regComp(name, arrSort(string(k), string(v)))
		return name, k, v
	}
	so := g.specSort(gv.Type)
	g.regComp(name, string(so))
	return name, "", so
}

// specSort maps a contract-language type name to a sort.
func (g *Gen) specSort(t string) Sort {
	switch t {
	case "int", "byte":
		return SInt
	case "bool":
		return SBool
	case "string":
		return SStr
	case "ref":
		return SRef
	case "iface", "error":
		return SIface
	case "slice", "bytes", "[]string", "[]byte":
		return SSlice
	case "float64":
		return SF64
	case "intarray":
		return Sort("(Array Int Int)")
	case "strarray":
		return Sort("(Array Int Str)")
	case "refarray":
		return Sort("(Array Int Ref)")
	case "boolarray":
		return Sort("(Array Int Bool)")
	}
	if strings.HasPrefix(t, "*") {
		return SRef
	}
	if strings.HasPrefix(t, "(") {
		return Sort(t) // a raw SMT sort
	}
	if strings.HasPrefix(t, "array:") {
		return Sort(arrSort("Int", string(g.specSort(t[len("array:"):]))))
	}
	return g.S.opaqueSort(t)
}

func (g *Gen) subRef(T types.Type, f string, r string) string {
	fn := qsym("sub:" + typeName(T) + "." + f)
	g.S.declareFun(fn, []string{"Ref"}, "Ref")
	t := sx(fn, r)
	// an embedded sub-object is allocated exactly when its enclosing object is (so it never aliases a fresh object)
	if !strings.Contains(r, "|q!") && !strings.Contains(r, "r!this") && !g.S.declared["suballoc:"+t] {
		g.S.declared["suballoc:"+t] = true
		al := g.initSym(g.allocComp())
		g.S.assert(eq(sel(al, t), sel(al, r)))
		// derived references are injective and the ranges of different fields are disjoint
		g.S.declareFun("sub.kind", []string{"Ref"}, "Int")
		g.S.declareFun("sub.base", []string{"Ref"}, "Ref")
		g.S.assert(and(eq(sx("sub.kind", t), fmt.Sprint(subKindID(fn))), eq(sx("sub.base", t), r)))
	}
	return t
}
func (g *Gen) elemRef(T types.Type, arr, idx string) string {
	fn := qsym("elemref:" + typeName(T))
	g.S.declareFun(fn, []string{"Ref", "Int"}, "Ref")
	return sx(fn, arr, idx)
}

// loadField reads field i of struct type T from the object at ref r.
func (g *Gen) loadField(h Heap, T types.Type, r string, i int) Val {
	st := structOf(T)
	f := st.Field(i)
	if _, flat := isFlatStruct(f.Type()); flat {
		return g.loadStruct(h, f.Type(), g.subRef(T, f.Name(), r))
	}
	comp, so := g.fieldComp(T, f)
	return Val{T: sel(g.hget(h, comp), r), S: so, Ty: f.Type()}
}

func (g *Gen) storeField(h Heap, T types.Type, r string, i int, v Val) Heap {
	st := structOf(T)
	f := st.Field(i)
	if _, flat := isFlatStruct(f.Type()); flat {
		return g.storeStruct(h, f.Type(), g.subRef(T, f.Name(), r), v)
	}
	comp, _ := g.fieldComp(T, f)
	h = h.clone()
	h[comp] = store(g.hget(h, comp), r, v.T)
	return h
}

func (g *Gen) loadStruct(h Heap, T types.Type, r string) Val {
	st := structOf(T)
	v := Val{Ty: T}
	for i := 0; i < st.NumFields(); i++ {
		v.Flds = append(v.Flds, g.loadField(h, T, r, i))
	}
	return v
}

func (g *Gen) storeStruct(h Heap, T types.Type, r string, v Val) Heap {
	st := structOf(T)
	for i := 0; i < st.NumFields(); i++ {
		if i < len(v.Flds) {
			h = g.storeField(h, T, r, i, v.Flds[i])
		}
	}
	return h
}

// loadAt loads the value of Go type T stored at pointer value p.
func (g *Gen) loadAt(h Heap, p Val, T types.Type) Val {
	if p.Addr != nil {
		a := p.Addr
		so := g.sortOf(T)
		if a.Idx != "" {
			return Val{T: sel(sel(g.hget(h, a.Comp), a.Ref), a.Idx), S: so, Ty: T}
		}
		return Val{T: sel(g.hget(h, a.Comp), a.Ref), S: so, Ty: T}
	}
	if _, flat := isFlatStruct(T); flat {
		return g.loadStruct(h, T, p.T)
	}
	so := g.sortOf(T)
	return Val{T: sel(g.hget(h, g.cellComp(so)), p.T), S: so, Ty: T}
}

func (g *Gen) storeAt(h Heap, p Val, T types.Type, v Val) Heap {
	if p.Addr != nil {
		a := p.Addr
		h = h.clone()
		if a.Idx != "" {
			outer := g.hget(h, a.Comp)
			h[a.Comp] = store(outer, a.Ref, store(sel(outer, a.Ref), a.Idx, v.T))
		} else {
			h[a.Comp] = store(g.hget(h, a.Comp), a.Ref, v.T)
		}
		return h
	}
	if _, flat := isFlatStruct(T); flat {
		return g.storeStruct(h, T, p.T, v)
	}
	so := g.sortOf(T)
	comp := g.cellComp(so)
	h = h.clone()
	h[comp] = store(g.hget(h, comp), p.T, v.T)
	return h
}

// freshRef allocates a new object reference.
func (g *Gen) freshRef(h Heap, hint string) (string, Heap) {
	r := g.S.freshName("ref:" + hint)
	g.S.declare(r, "Ref")
	al := g.hget(h, g.allocComp())
	g.S.assert(and(not(sel(al, r)), not(eq(r, "null"))))
	// an allocated object is a root object, never the address of a field embedded in another object
	g.S.declareFun("sub.kind", []string{"Ref"}, "Int")
	g.S.assert(eq(sx("sub.kind", r), "0"))
	// allocation is monotone: an object that is new now was not allocated at function entry either
	if init := g.initSym(g.allocComp()); init != al {
		g.S.assert(not(sel(init, r)))
	}
	h = h.clone()
	h["ALLOC"] = store(al, r, "true")
	// ghost maps keyed by ref start at their zero value for a fresh object (not recorded as a write of the
	// function: callers never knew anything about the entries of unallocated objects)
	for _, gv := range g.sortedGhosts() {
		if g.scan {
			break
		}
		if strings.HasPrefix(gv.Type, "map:ref:") {
			comp, _, vs := g.ghostComp(gv)
			h[comp] = store(g.hget(h, comp), r, g.zeroOfSort(vs))
		}
	}
	return r, h
}

func (g *Gen) sortedGhosts() []*GhostVar {
	var out []*GhostVar
	for _, gv := range g.P.Contract.Ghosts {
		out = append(out, gv)
	}
	sort.Slice(out, func(i, j int) bool { return out[i].Name < out[j].Name })
	return out
}

func (g *Gen) zeroOfSort(so Sort) string {
	switch so {
	case SInt:
		return "0"
	case SBool:
		return "false"
	case SRef:
		return "null"
	case SStr:
		return "str.empty"
	case SSlice:
		return "slice.nil"
	case SIface:
		return "iface.nil"
	case SFn:
		return "fn.nil"
	case SF64:
		return "f.zero"
	}
	if strings.HasPrefix(string(so), "(Array") {
		switch vs := Sort(arrayValueSort(string(so))); vs {
		case SInt, SBool, SRef, SStr, SIface:
			return fmt.Sprintf("((as const %s) %s)", so, g.zeroOfSort(vs))
		}
		n := g.S.freshName("zeroarr")
		g.S.declare(n, string(so))
		return n
	}
	return zeroOpaque(so)
}

// allocObject allocates and zero-initialises an object of type T.
func (g *Gen) allocObject(h Heap, T types.Type, hint string) (string, Heap) {
	r, h := g.freshRef(h, hint)
	switch u := T.Underlying().(type) {
	case *types.Struct:
		// embedded sub-objects (struct-typed fields, addressed by derived references) are new as well:
		// ghost maps keyed by their address start at the zero value
		for i := 0; i < u.NumFields(); i++ {
			f := u.Field(i)
			if _, isStruct := f.Type().Underlying().(*types.Struct); !isStruct {
				continue
			}
			sub := g.subRef(T, f.Name(), r)
			// the embedded object did not exist before this allocation either
			g.S.assert(not(sel(g.hget(h, g.allocComp()), sub)))
			h = h.clone()
			h["ALLOC"] = store(g.hget(h, g.allocComp()), sub, "true")
			for _, gv := range g.sortedGhosts() {
				if g.scan {
					break
				}
				if strings.HasPrefix(gv.Type, "map:ref:") {
					comp, _, vs := g.ghostComp(gv)
					h[comp] = store(g.hget(h, comp), sub, g.zeroOfSort(vs))
				}
			}
		}
		if _, flat := isFlatStruct(T); flat {
			h = g.storeStruct(h, T, r, g.zero(T))
			return r, h
		}
	case *types.Array:
		eso := g.sortOf(u.Elem())
		if eso != "" && !strings.HasPrefix(string(eso), "|O:") || eso != "" {
			comp := g.elemComp(eso)
			h = h.clone()
			h[comp] = store(g.hget(h, comp), r, fmt.Sprintf("((as const (Array Int %s)) %s)", eso, g.zero(u.Elem()).T))
		}
		return r, h
	}
	so := g.sortOf(T)
	if so != "" {
		comp := g.cellComp(so)
		h = h.clone()
		h[comp] = store(g.hget(h, comp), r, g.zero(T).T)
	}
	return r, h
}

// ---------------------------------------------------------------- values

func (g *Gen) fresh(t types.Type, hint string) Val {
	so := g.sortOf(t)
	v := Val{S: so, Ty: t}
	if so == "" {
		switch u := t.(type) {
		case *types.Tuple:
			for i := 0; i < u.Len(); i++ {
				v.Flds = append(v.Flds, g.fresh(u.At(i).Type(), fmt.Sprintf("%s.%d", hint, i)))
			}
			return v
		}
		st := structOf(t)
		for i := 0; i < st.NumFields(); i++ {
			v.Flds = append(v.Flds, g.fresh(st.Field(i).Type(), hint+"."+st.Field(i).Name()))
		}
		return v
	}
	v.T = g.S.freshName(hint)
	g.S.declare(v.T, string(so))
	g.S.assert(g.typeAssume(v))
	return v
}

func (g *Gen) typeID(t types.Type) int {
	k := types.TypeString(t, nil)
	if id, ok := g.typeIDs[k]; ok {
		return id
	}
	id := len(g.typeIDs) + 1
	g.typeIDs[k] = id
	return id
}

func (g *Gen) constVal(c *ssa.Const) Val {
	t := c.Type()
	so := g.sortOf(t)
	v := Val{S: so, Ty: t}
	if c.Value == nil {
		return g.zero(t)
	}
	switch so {
	case SInt:
		if c.Value.Kind() == constant.Float {
			f, _ := constant.Float64Val(c.Value)
			v.T = num(int64(f))
		} else {
			i := constant.ToInt(c.Value)
			v.T = numStr(i.ExactString())
		}
	case SBool:
		v.T = fmt.Sprint(constant.BoolVal(c.Value))
	case SStr:
		v.T = g.S.strLit(constant.StringVal(c.Value))
	case SF64:
		f, _ := constant.Float64Val(c.Value)
		v.T = fpLit(f)
	default:
		return g.zero(t)
	}
	return v
}

func fpLit(f float64) string {
	b := math.Float64bits(f)
	if b == 0 {
		return "f.zero"
	}
	// a Go constant is never NaN or infinite; distinct literals are distinct uninterpreted values (their order is not modelled)
	n := int64(b & 0x7fffffffffffffff)
	if b>>63 == 1 {
		n = -n - 1
	}
	return sx("f.lit", num(n))
}

func (g *Gen) val(v ssa.Value) Val {
	switch c := v.(type) {
	case *ssa.Const:
		return g.constVal(c)
	case *ssa.Function:
		return g.fnVal(c)
	case *ssa.Global:
		// address of a package-level variable: a cell keyed by a distinguished ref
		name := qsym("global:" + c.Pkg.Pkg.Name() + "." + c.Name())
		g.S.declare(name, "Ref")
		return Val{T: name, S: SRef, Ty: c.Type()}
	case *ssa.Builtin:
		return Val{T: "fn.nil", S: SFn, Ty: c.Type()}
	}
	if x, ok := g.vals[v]; ok {
		return x
	}
	// value used before definition (only possible across a cut back edge): havoc
	x := g.fresh(v.Type(), "undef:"+v.Name())
	g.vals[v] = x
	return x
}

func (g *Gen) fnVal(f *ssa.Function) Val {
	name := qsym("fn:" + f.String())
	g.S.declare(name, "Fn")
	return Val{T: name, S: SFn, Ty: f.Type()}
}

// define binds an SSA value to a fresh symbol equal to term (keeps VCs linear in size).
func (g *Gen) define(v ssa.Value, x Val) {
	if x.S != "" && x.Addr == nil && len(x.T) > 24 && !(strings.HasPrefix(x.T, "(mk-slice ") && len(x.T) < 400) {
		n := qsym(fmt.Sprintf("%s.%s", v.Name(), g.blockTag(v)))
		if !g.S.declared[n] {
			g.S.declare(n, string(x.S))
			g.S.assert(eq(n, x.T))
			x.T = n
		}
	}
	g.vals[v] = x
}

func (g *Gen) blockTag(v ssa.Value) string {
	if ins, ok := v.(ssa.Instruction); ok && ins.Block() != nil {
		return fmt.Sprintf("b%d", ins.Block().Index)
	}
	return "p"
}

// ---------------------------------------------------------------- anchors / obligations

func (g *Gen) anchorText(pos token.Pos, kinds ...string) string {
	if !pos.IsValid() {
		return "?"
	}
	file := g.fileOf(pos)
	if file == nil {
		return "?"
	}
	path, _ := astutil.PathEnclosingInterval(file, pos, pos)
	want := map[string]bool{}
	for _, k := range kinds {
		want[k] = true
	}
	for _, n := range path {
		k := ""
		switch n.(type) {
		case *ast.IndexExpr:
			k = "index"
		case *ast.SliceExpr:
			k = "slice"
		case *ast.CallExpr:
			k = "call"
		case *ast.SelectorExpr:
			k = "sel"
		case *ast.StarExpr:
			k = "star"
		case *ast.TypeAssertExpr:
			k = "assert"
		case *ast.BinaryExpr:
			k = "binary"
		case *ast.UnaryExpr:
			k = "unary"
		case *ast.CompositeLit:
			k = "lit"
		case *ast.RangeStmt:
			k = "range"
		case *ast.IncDecStmt, *ast.AssignStmt:
			k = "stmt"
		}
		if k != "" && (len(want) == 0 || want[k]) {
			if rs, ok := n.(*ast.RangeStmt); ok {
				return "range " + g.P.SrcText(rs.X)
			}
			return g.P.SrcText(n)
		}
	}
	if len(path) > 0 {
		return g.P.SrcText(path[0])
	}
	return "?"
}

func (g *Gen) fileOf(pos token.Pos) *ast.File {
	for _, pkg := range g.P.Pkgs {
		for _, f := range pkg.Syntax {
			if f.FileStart <= pos && pos < f.FileEnd {
				return f
			}
		}
	}
	var found *ast.File
	for _, pkg := range g.P.Pkgs {
		for _, imp := range pkg.Imports {
			_ = imp
		}
	}
	return found
}

// curGuard refreshes a stale block-reach guard to the block's current (strengthened) path condition.
func (g *Gen) curGuard(guard string) string {
	if g.curBlock == nil {
		return guard
	}
	p := fmt.Sprintf("|reach.b%d", g.curBlock.Index)
	if strings.HasPrefix(guard, p) && !strings.Contains(guard, " ") && (guard[len(p)] == '|' || guard[len(p)] == '.') {
		return g.reach[g.curBlock]
	}
	return guard
}

func (g *Gen) oblige(kind, anchor, clause, guard, goal string, pos token.Pos) *Obligation {
	guard = g.curGuard(guard)
	base := fmt.Sprintf("%s#%s:%s", g.FnName(), kind, anchor)
	g.anchorN[base]++
	name := base
	if n := g.anchorN[base]; n > 1 {
		name = fmt.Sprintf("%s~%d", base, n)
	}
	o := &Obligation{Name: name, Kind: kind, Fn: g.FnName(), Anchor: anchor, Clause: clause, Guard: guard, Goal: goal, Pos: pos, Gen: g}
	g.Obls = append(g.Obls, o)
	// execution continues past a runtime check only if it succeeded: strengthen the path condition
	switch kind {
	case "nil", "bounds", "alloc", "div", "assert-type", "nil-map", "pre":
		if g.curBlock != nil && guard == g.reach[g.curBlock] {
			n := g.S.freshName(fmt.Sprintf("reach.b%d.c", g.curBlock.Index))
			g.S.declare(n, "Bool")
			g.S.assert(eq(n, and(guard, goal)))
			g.reach[g.curBlock] = n
		}
	}
	return o
}

// FnName is the reporting name: executors by command name, others by key.
func (g *Gen) FnName() string {
	if n, ok := g.P.ExecName[g.Fn]; ok {
		return "redis.executor:" + n
	}
	return FuncKey(g.Fn)
}

func (g *Gen) safety(kind string, pos token.Pos, guard, goal string, anchorKinds ...string) {
	if !g.mode.Sweep {
		return
	}
	if goal == "true" {
		return
	}
	if kind == "nil" {
		// skip pointers already known non-nil, and re-checks dominated by an identical earlier check
		if g.nilDone == nil {
			g.nilDone = map[string][]*ssa.BasicBlock{}
		}
		if strings.Contains(goal, "|ref:") && !strings.Contains(goal, "select") && !strings.Contains(goal, "ite") {
			return
		}
		for _, db := range g.nilDone[goal] {
			if g.curBlock != nil && (db == g.curBlock || db.Dominates(g.curBlock)) {
				return
			}
		}
		if g.curBlock != nil {
			g.nilDone[goal] = append(g.nilDone[goal], g.curBlock)
		}
	}
	g.oblige(kind, g.anchorText(pos, anchorKinds...), "", guard, goal, pos)
}

// subKindID gives each derived-reference function a stable distinct number.
func subKindID(name string) int {
	h := fnv.New32a()
	h.Write([]byte(name))
	return int(h.Sum32()%1000000) + 1
}
