package engine

import (
	"fmt"
	"go/ast"
	"go/token"
	"os"
	"sort"
	"strings"

	"golang.org/x/tools/go/packages"
	"golang.org/x/tools/go/ssa"
	"golang.org/x/tools/go/ssa/ssautil"
)

// Program is the loaded /repo: typed syntax, SSA, and the raw contract text.
type Program struct {
	Fset     *token.FileSet
	Pkgs     []*packages.Package
	SSA      *ssa.Program
	SSAPkgs  map[string]*ssa.Package // by import path
	Funcs    map[string]*ssa.Function
	RepoDir  string
	Contract *ContractSet
	// ExecByName maps a command name (constant first argument of RegisterExexutor) to the closure.
	ExecByName map[string]*ssa.Function
	ExecName   map[*ssa.Function]string
	ws         map[*ssa.Function]*wsEntry
	wsBusy     map[*ssa.Function]bool
	glInit     map[*ssa.Global]bool
	allFns     map[*ssa.Function]bool
}

const RepoModule = "github.com/cybergarage/go-redis"

// Load type-checks and lowers the working tree of repoDir with -tags verif.
func Load(repoDir string, patterns ...string) (*Program, error) {
	if len(patterns) == 0 {
		patterns = []string{"./redis/...", "./examples/go-redisd/server"}
	}
	fset := token.NewFileSet()
	cfg := &packages.Config{
		Mode: packages.NeedName | packages.NeedFiles | packages.NeedCompiledGoFiles | packages.NeedImports |
			packages.NeedDeps | packages.NeedTypes | packages.NeedSyntax | packages.NeedTypesInfo | packages.NeedTypesSizes | packages.NeedModule,
		Dir:        repoDir,
		Fset:       fset,
		BuildFlags: []string{"-tags=verif", "-mod=readonly"},
		Env: append(os.Environ(), "GOFLAGS=", "GOPROXY=off", "GOSUMDB=off", "GOTOOLCHAIN=local",
			"GOWORK=off"),
		Tests: false,
	}
	pkgs, err := packages.Load(cfg, patterns...)
	if err != nil {
		return nil, err
	}
	var errs []string
	packages.Visit(pkgs, nil, func(p *packages.Package) {
		for _, e := range p.Errors {
			errs = append(errs, e.Error())
		}
	})
	if len(errs) > 0 {
		return nil, fmt.Errorf("load errors:\n%s", strings.Join(errs, "\n"))
	}
	prog, spkgs := ssautil.AllPackages(pkgs, ssa.GlobalDebug|ssa.InstantiateGenerics)
	prog.Build()
	p := &Program{Fset: fset, Pkgs: pkgs, SSA: prog, SSAPkgs: map[string]*ssa.Package{}, Funcs: map[string]*ssa.Function{},
		RepoDir: repoDir, ExecByName: map[string]*ssa.Function{}, ExecName: map[*ssa.Function]string{}}
	for i, sp := range spkgs {
		if sp == nil {
			continue
		}
		p.SSAPkgs[pkgs[i].PkgPath] = sp
	}
	for fn := range ssautil.AllFunctions(prog) {
		if fn.Pkg == nil || !strings.HasPrefix(fn.Pkg.Pkg.Path(), RepoModule) {
			continue
		}
		if fn.Synthetic != "" && !strings.HasPrefix(fn.Synthetic, "package initializer") {
			continue
		}
		p.Funcs[FuncKey(fn)] = fn
	}
	p.resolveExecutors()
	cs, err := p.loadContracts()
	if err != nil {
		return nil, err
	}
	p.Contract = cs
	return p, nil
}

// FuncKey is the stable contract key of a function: "<pkgname>.<name>" with methods as
// "<pkgname>.(*T).m" / "<pkgname>.(T).m" and closures as "<parent>$k".
func FuncKey(fn *ssa.Function) string {
	if fn.Parent() != nil {
		// closures: parent key + suffix of name after the parent's name
		pk := FuncKey(fn.Parent())
		nm := fn.Name()
		if i := strings.LastIndex(nm, "$"); i >= 0 {
			return pk + nm[i:]
		}
		return pk + "$" + nm
	}
	pkg := ""
	if fn.Pkg != nil {
		pkg = fn.Pkg.Pkg.Name()
	}
	if recv := fn.Signature.Recv(); recv != nil {
		t := recv.Type().String()
		ptr := ""
		if strings.HasPrefix(t, "*") {
			ptr = "*"
			t = t[1:]
		}
		if i := strings.LastIndex(t, "."); i >= 0 {
			t = t[i+1:]
		}
		return fmt.Sprintf("%s.(%s%s).%s", pkg, ptr, t, fn.Name())
	}
	return pkg + "." + fn.Name()
}

func (p *Program) resolveExecutors() {
	for _, fn := range p.Funcs {
		for _, b := range fn.Blocks {
			for _, ins := range b.Instrs {
				c, ok := ins.(*ssa.Call)
				if !ok {
					continue
				}
				callee := c.Call.StaticCallee()
				if callee == nil || callee.Name() != "RegisterExexutor" || len(c.Call.Args) != 3 {
					continue
				}
				k, ok := c.Call.Args[1].(*ssa.Const)
				if !ok || k.Value == nil {
					continue
				}
				name := strings.Trim(k.Value.ExactString(), "\"")
				var target *ssa.Function
				arg := c.Call.Args[2]
				if ct, ok := arg.(*ssa.ChangeType); ok {
					arg = ct.X
				}
				switch v := arg.(type) {
				case *ssa.MakeClosure:
					target = v.Fn.(*ssa.Function)
				case *ssa.Function:
					target = v
				}
				if target != nil {
					p.ExecByName[name] = target
					p.ExecName[target] = name
				}
			}
		}
	}
}

// SortedFuncKeys lists functions in stable order.
func (p *Program) SortedFuncKeys() []string {
	ks := make([]string, 0, len(p.Funcs))
	for k := range p.Funcs {
		ks = append(ks, k)
	}
	sort.Strings(ks)
	return ks
}

// SrcText returns the source text of an AST node (single-line normalised), or "".
func (p *Program) SrcText(n ast.Node) string {
	if n == nil || !n.Pos().IsValid() {
		return ""
	}
	return p.srcRange(n.Pos(), n.End())
}

var fileCache = map[string][]byte{}

func (p *Program) srcRange(pos, end token.Pos) string {
	if !pos.IsValid() || !end.IsValid() {
		return ""
	}
	ps, pe := p.Fset.Position(pos), p.Fset.Position(end)
	b, ok := fileCache[ps.Filename]
	if !ok {
		b, _ = os.ReadFile(ps.Filename)
		fileCache[ps.Filename] = b
	}
	if ps.Offset < 0 || pe.Offset > len(b) || ps.Offset > pe.Offset {
		return ""
	}
	s := string(b[ps.Offset:pe.Offset])
	s = strings.Join(strings.Fields(s), " ")
	if len(s) > 80 {
		s = s[:80]
	}
	return s
}
