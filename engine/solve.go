package engine

import (
	"bytes"
	"context"
	"fmt"
	"os"
	"os/exec"
	"path/filepath"
	"sort"
	"strings"
	"sync"
	"time"
)

type SolveOpts struct {
	QuickMs   int    // per-obligation timeout in the incremental first pass
	RaceMs    int    // per-solver timeout when racing a single obligation
	OutDir    string // where SMT files are written
	Seed      int
	Solvers   []string // subset of z3new z3old cvc5
	Stability bool
}

type SolverStats struct {
	mu      sync.Mutex
	Cross   map[string]int // thorough tier: answers of the other solvers on obligations z3-5.1.0 discharged
	Disagree []string      // obligations one solver proved and another refuted (engine error)
	SeedFragile []string   // thorough tier: discharged with the run's seed but not with seed+1 (first pass only)
	ByBack  map[string]int
	TimeS   float64
	Queries int
}

func (s *SolverStats) add(back string, d time.Duration) {
	s.mu.Lock()
	defer s.mu.Unlock()
	if s.ByBack == nil {
		s.ByBack = map[string]int{}
	}
	if back != "" {
		s.ByBack[back]++
	}
	s.TimeS += d.Seconds()
	s.Queries++
}

var solverCmd = map[string][]string{
	"z3-5.1.0":   {"z3-new", "-smt2"},
	"z3-4.8.12":  {"/usr/bin/z3", "-smt2"},
	"cvc5-1.0.3": {"cvc5", "--lang=smt2"},
}

func solverArgs(name string, file string, ms int, seed int) []string {
	base := append([]string{}, solverCmd[name]...)
	switch {
	case strings.HasPrefix(name, "z3"):
		base = append(base, fmt.Sprintf("-t:%d", ms), fmt.Sprintf("smt.random_seed=%d", seed), file)
	default:
		base = append(base, fmt.Sprintf("--tlimit-per=%d", ms), fmt.Sprintf("--seed=%d", seed), file)
	}
	return base
}

// solverPool bounds the number of solver processes running at once (all units share it).
var solverPool = make(chan struct{}, 16)

var skCounter int
var skMu sync.Mutex

// obligationQuery returns the declarations and the assertion of the negated obligation (goal skolemized),
// preceded by ground instances of the unit's quantified hypotheses at the goal's index terms.
func obligationQuery(o *Obligation) (string, string) {
	skMu.Lock()
	g, decls := skolemizeGoal(o.Goal, &skCounter)
	skMu.Unlock()
	q := and(o.Guard, not(g))
	var extra []string
	if o.Gen != nil {
		tm := map[string]bool{}
		selectIndexTerms(q, tm)
		var terms []string
		for t := range tm {
			if !strings.Contains(t, "|q!") && len(t) < 200 && (o.Gen.S.isIntTerm(t) || strings.HasPrefix(t, "(mk-iface ") || (strings.HasPrefix(t, "|sk!") && strings.Contains(t, "!Iface!"))) {
				terms = append(terms, t)
			}
		}
		// goal skolems first, then the shortest index terms
		sort.Slice(terms, func(i, j int) bool {
			si, sj := strings.HasPrefix(terms[i], "|sk!"), strings.HasPrefix(terms[j], "|sk!")
			if si != sj {
				return si
			}
			if len(terms[i]) != len(terms[j]) {
				return len(terms[i]) < len(terms[j])
			}
			return terms[i] < terms[j]
		})
		if len(terms) > 12 {
			terms = terms[:12]
		}
		terms = append(terms, o.Gen.S.instTerms...)
		for _, t := range append([]string{}, terms...) {
			if strings.HasPrefix(t, "|sk!") && strings.Contains(t, "!Int!") {
				terms = append(terms, "(+ "+t+" 1)", "(- "+t+" 1)", "(+ "+t+" 2)") // the neighbouring positions (element removal / insertion; i+2 is the successor after a removal)
			}
		}
		var ctxTerms []string
		{
			ctx := map[string]bool{}
			for _, a := range o.Gen.S.asserts {
				if !strings.Contains(a, "(forall ") && len(a) < 4000 {
					selectIndexTerms(a, ctx)
				}
			}
			have := map[string]bool{}
			for _, t := range terms {
				have[t] = true
			}
			for t := range ctx {
				if len(t) < 30 && !have[t] && !strings.Contains(t, "|q!") && o.Gen.S.isIntTerm(t) {
					ctxTerms = append(ctxTerms, t)
				}
			}
			sort.Slice(ctxTerms, func(i, j int) bool {
				if len(ctxTerms[i]) != len(ctxTerms[j]) {
					return len(ctxTerms[i]) < len(ctxTerms[j])
				}
				return ctxTerms[i] < ctxTerms[j]
			})
		}
		for i, t := range ctxTerms {
			if i >= 4 {
				break
			}
			terms = append(terms, t) // loop counters of the code: single-variable hypotheses are instantiated at them too
		}
		if len(terms) > 0 {
			budget := 1500 + 40*len(o.Gen.S.instTerms)
			// the antecedent of an implication goal is a hypothesis of the query too (the query asserts guard, antecedent and
			// the negated consequent): its quantified conjuncts get the same goal-directed instances as the unit's assumptions
			for _, a := range goalAntecedents(g) {
				if !strings.Contains(a, "(forall ((|q!") {
					continue
				}
				// ... and at the index terms the contract names with witness(...)
				for _, inst := range groundInstances(a, append(append([]string{}, terms...), o.Gen.S.witTerms...), ctxTerms, &budget) {
					extra = append(extra, "(assert "+inst+")")
				}
			}
			for _, a := range o.Gen.S.asserts {
				if !strings.Contains(a, "(forall ((|q!") && !strings.Contains(a, "(forall ((j Int))") {
					continue
				}
				for _, inst := range groundInstances(a, terms, ctxTerms, &budget) {
					extra = append(extra, "(assert "+inst+")")
				}
			}
		}
	}
	if strings.Contains(g, "(exists ") {
		// likely witnesses for the goal's existentials: Skolem terms of the instantiated hypotheses, the goal's own
		// index terms, and small offsets of them
		cand := map[string]bool{}
		for _, e := range extra {
			skolemApps(e, cand)
		}
		if o.Gen != nil {
			for _, a := range o.Gen.S.asserts {
				if !strings.Contains(a, "(forall ") {
					skolemApps(a, cand)
				}
			}
		}
		tm := map[string]bool{}
		selectIndexTerms(q, tm)
		if o.Gen != nil {
			// index terms the code itself used (short ones): loop counters are the usual witnesses
			ctx := map[string]bool{}
			for _, a := range o.Gen.S.asserts {
				if !strings.Contains(a, "(forall ") && len(a) < 4000 {
					selectIndexTerms(a, ctx)
				}
			}
			for t := range ctx {
				if len(t) < 40 {
					tm[t] = true
				}
			}
		}
		var cs []string
		for t := range cand {
			if !strings.Contains(t, "|q!") {
				cs = append(cs, t)
			}
		}
		for t := range tm {
			if !strings.Contains(t, "|q!") && len(t) < 120 && o.Gen != nil && o.Gen.S.isIntTerm(t) {
				cs = append(cs, t, "(- "+t+" 1)")
			}
		}
		sort.Strings(cs)
		sort.SliceStable(cs, func(i, j int) bool { return len(cs[i]) < len(cs[j]) })
		if len(cs) > 40 {
			cs = cs[:40]
		}
		if o.Gen != nil {
			cs = append(cs, o.Gen.S.witTerms...) // witnesses the contract names explicitly
		}
		g = expandGoalExists(g, cs)
		q = and(o.Guard, not(g))
	}
	return strings.Join(append(decls, extra...), "\n"), q
}

// SolveGen discharges the obligations of one generated unit.
func SolveGen(g *Gen, opts SolveOpts, stats *SolverStats) {
	if len(g.Obls) == 0 {
		return
	}
	g.emitAxioms()
	prefix := g.S.text()
	safe := strings.NewReplacer("/", "_", "(", "", ")", "", "*", "P", "$", "_", ":", "_", " ", "_").Replace(g.FnName())
	dir := filepath.Join(opts.OutDir, safe)
	os.MkdirAll(dir, 0o755)
	// pass 1: incremental on z3-new
	var b strings.Builder
	b.WriteString(prefix)
	// vacuity guards: the assumptions alone, and "some return is reachable", must not be unsat
	b.WriteString("(check-sat)\n")
	var rets []string
	for _, rb := range g.retBlocks {
		rets = append(rets, g.reach[rb])
	}
	fmt.Fprintf(&b, "(push)\n(assert %s)\n(check-sat)\n(pop)\n", or(rets...))
	for _, o := range g.Obls {
		d, q := obligationQuery(o)
		fmt.Fprintf(&b, "(push)\n%s\n(assert %s)\n(check-sat)\n(pop)\n", d, q)
	}
	f1 := filepath.Join(dir, "all.smt2")
	os.WriteFile(f1, []byte(b.String()), 0o644)
	t0 := time.Now()
	total := time.Duration(opts.QuickMs)*time.Millisecond*time.Duration(len(g.Obls)) + 20*time.Second
	out, _ := runCmd(total, append(append([]string{}, solverCmd["z3-5.1.0"]...), fmt.Sprintf("-t:%d", opts.QuickMs), fmt.Sprintf("smt.random_seed=%d", opts.Seed), f1))
	el := time.Since(t0)
	var answers []string
	for _, ln := range strings.Split(out, "\n") {
		ln = strings.TrimSpace(ln)
		switch ln {
		case "sat", "unsat", "unknown", "timeout":
			answers = append(answers, ln)
		}
		if strings.HasPrefix(ln, "(error") && !strings.Contains(ln, "model is not available") {
			g.Warnings = append(g.Warnings, "solver: "+ln)
		}
	}
	if len(answers) >= 2 {
		if answers[0] == "unsat" {
			g.Vacuous = append(g.Vacuous, "assumptions of "+g.FnName()+" are contradictory (sat-pre)")
		} else if answers[1] == "unsat" && len(rets) > 0 {
			g.Vacuous = append(g.Vacuous, "no return of "+g.FnName()+" is reachable under its assumptions (reach)")
		}
		answers = answers[2:]
	} else {
		answers = nil
	}
	per := el.Seconds() / float64(len(g.Obls))
	var rest []*Obligation
	for i, o := range g.Obls {
		a := "unknown"
		if i < len(answers) {
			a = answers[i]
		}
		o.TimeS = per
		if a == "unsat" {
			o.Status, o.Solver = "proved", "z3-5.1.0"
			stats.add("z3-5.1.0", time.Duration(per*float64(time.Second)))
		} else {
			rest = append(rest, o)
		}
	}
	// pass 1b: what the incremental run left open gets one fresh (non-incremental) z3-new process each: the two modes
	// of z3 preprocess quantifiers differently and each decides queries the other does not
	if len(rest) > 0 {
		var wg sync.WaitGroup
		var mu sync.Mutex
		var still []*Obligation
		for i, o := range rest {
			wg.Add(1)
			go func(i int, o *Obligation) {
				defer wg.Done()
				d, qa := obligationQuery(o)
				f := filepath.Join(dir, fmt.Sprintf("q%04d.smt2", i))
				// the fresh process gets the assumptions without the facts about ghost arrays the goal does not mention
				// (slicePrefix); what it leaves open is put to the full query in pass 2
				pfx, ds, _ := sliceQuery(prefix, d, qa)
				os.WriteFile(f, []byte(pfx+fmt.Sprintf("%s\n(assert %s)\n(check-sat)\n", ds, qa)), 0o644)
				solverPool <- struct{}{}
				t0 := time.Now()
				out, _ := runCmd(time.Duration(opts.QuickMs+5000)*time.Millisecond, append(append([]string{}, solverCmd["z3-5.1.0"]...), fmt.Sprintf("-t:%d", opts.QuickMs), fmt.Sprintf("smt.random_seed=%d", opts.Seed), f))
				el := time.Since(t0)
				<-solverPool
				os.Remove(f)
				ans := "unknown"
				for _, ln := range strings.Split(out, "\n") {
					ln = strings.TrimSpace(ln)
					if ln == "sat" || ln == "unsat" || ln == "unknown" || ln == "timeout" {
						ans = ln
						break
					}
				}
				if ans == "unsat" {
					o.Status, o.Solver, o.TimeS = "proved", "z3-5.1.0", el.Seconds()
					stats.add("z3-5.1.0", el)
					return
				}
				stats.add("", el)
				mu.Lock()
				still = append(still, o)
				mu.Unlock()
			}(i, o)
		}
		wg.Wait()
		sort.Slice(still, func(a, b int) bool { return still[a].Name < still[b].Name })
		rest = still
	}
	// pass 2: race the remaining ones individually
	var wg sync.WaitGroup
	sem := make(chan struct{}, 4)
	for i, o := range rest {
		if o.Kind == "auto-init" || o.Kind == "auto-pres" {
			// an inferred candidate gets one short race (no retry); if that fails it is dropped (Houdini)
			wg.Add(1)
			sem <- struct{}{}
			go func(i int, o *Obligation) {
				defer wg.Done()
				defer func() { <-sem }()
				o2 := opts
				o2.RaceMs = opts.QuickMs * 2
				raceOnce(o, prefix, filepath.Join(dir, fmt.Sprintf("ob%03d.smt2", i)), o2, stats)
			}(i, o)
			continue
		}
		wg.Add(1)
		sem <- struct{}{}
		go func(i int, o *Obligation) {
			defer wg.Done()
			defer func() { <-sem }()
			raceOne(o, prefix, filepath.Join(dir, fmt.Sprintf("ob%03d.smt2", i)), opts, stats)
		}(i, o)
	}
	wg.Wait()
	if opts.Stability {
		crossCheck(g, prefix, dir, opts, stats)
	}
}

// crossCheck (thorough tier): every obligation discharged by z3-5.1.0 is also put to cvc5 and z3-4.8.12 (a "sat" from either
// is a disagreement between solvers, reported as an engine error, never as a pass), and to z3-5.1.0 with another seed
// (a query that is only proved under one seed is listed as fragile).
func crossCheck(g *Gen, prefix, dir string, opts SolveOpts, stats *SolverStats) {
	var wg sync.WaitGroup
	for i, o := range g.Obls {
		if o.Status != "proved" || o.Kind == "auto-init" || o.Kind == "auto-pres" {
			continue
		}
		wg.Add(1)
		go func(i int, o *Obligation) {
			defer wg.Done()
			d, qa := obligationQuery(o)
			q := prefix + fmt.Sprintf("%s\n(assert %s)\n(check-sat)\n", d, qa)
			f := filepath.Join(dir, fmt.Sprintf("x%04d.smt2", i))
			fc := filepath.Join(dir, fmt.Sprintf("x%04d.cvc5.smt2", i))
			os.WriteFile(f, []byte(q), 0o644)
			os.WriteFile(fc, []byte("(set-logic ALL)\n"+q), 0o644)
			defer os.Remove(f)
			defer os.Remove(fc)
			ask := func(solver, file string, seed int) string {
				solverPool <- struct{}{}
				defer func() { <-solverPool }()
				out, _ := runCmd(time.Duration(opts.QuickMs+5000)*time.Millisecond, solverArgs(solver, file, opts.QuickMs, seed))
				for _, ln := range strings.Split(out, "\n") {
					ln = strings.TrimSpace(ln)
					if ln == "sat" || ln == "unsat" || ln == "unknown" || ln == "timeout" {
						return ln
					}
				}
				return "unknown"
			}
			for _, sv := range []string{"cvc5-1.0.3", "z3-4.8.12"} {
				file := f
				if strings.HasPrefix(sv, "cvc5") {
					file = fc
				}
				a := ask(sv, file, opts.Seed)
				stats.mu.Lock()
				if stats.Cross == nil {
					stats.Cross = map[string]int{}
				}
				stats.Cross[sv+":"+a]++
				if a == "sat" {
					stats.Disagree = append(stats.Disagree, o.Name+" ("+o.Solver+" unsat, "+sv+" sat)")
				}
				stats.mu.Unlock()
			}
			if a := ask("z3-5.1.0", f, opts.Seed+1); a != "unsat" {
				stats.mu.Lock()
				stats.SeedFragile = append(stats.SeedFragile, o.Name)
				stats.mu.Unlock()
			}
		}(i, o)
	}
	wg.Wait()
}

// raceOne races the solvers on one obligation; an undecided result is retried once with another seed and a
// longer limit before it is reported (slow or unlucky queries must not become alarms).
func raceOne(o *Obligation, prefix, file string, opts SolveOpts, stats *SolverStats) {
	raceOnce(o, prefix, file, opts, stats)
	if o.Status == "undecided" {
		first := o.Output
		o2 := opts
		o2.Seed = opts.Seed + 7919
		o2.RaceMs = opts.RaceMs * 3
		// the retry is the last word on the obligation: if the machine is oversubscribed right now (other checks started
		// after this one), give it the CPU time it would have had alone
		if f := loadFactor(); f > 1 {
			o2.RaceMs = int(float64(o2.RaceMs) * f)
		}
		raceOnce(o, prefix, file, o2, stats)
		o.Output = first + " | retry: " + o.Output
	}
}

func raceOnce(o *Obligation, prefix, file string, opts SolveOpts, stats *SolverStats) {
	d, qa := obligationQuery(o)
	q := prefix + fmt.Sprintf("%s\n(assert %s)\n(check-sat)\n(get-model)\n", d, qa)
	os.WriteFile(file, []byte(q), 0o644)
	qc := "(set-option :produce-models true)\n(set-logic ALL)\n" + q
	fileC := strings.TrimSuffix(file, ".smt2") + ".cvc5.smt2"
	os.WriteFile(fileC, []byte(qc), 0o644)
	solvers := opts.Solvers
	if len(solvers) == 0 {
		solvers = []string{"z3-5.1.0", "cvc5-1.0.3", "z3-4.8.12"}
	}
	type res struct {
		solver, ans, out string
		d                time.Duration
	}
	fileS := strings.TrimSuffix(file, ".smt2") + ".sliced.smt2"
	if pfx, ds, n := sliceQuery(prefix, d, qa); n > 0 && len(opts.Solvers) == 0 {
		os.WriteFile(fileS, []byte(pfx+fmt.Sprintf("%s\n(assert %s)\n(check-sat)\n", ds, qa)), 0o644)
		solvers = append(append([]string{}, solvers...), "z3-5.1.0/sliced")
	}
	ctx, cancel := context.WithCancel(context.Background())
	defer cancel()
	ch := make(chan res, len(solvers))
	for _, s := range solvers {
		go func(s string) {
			f := file
			if strings.HasPrefix(s, "cvc5") {
				f = fileC
			}
			sliced := strings.HasSuffix(s, "/sliced")
			if sliced {
				f = fileS
			}
			t0 := time.Now()
			out, _ := runCmdCtx(ctx, time.Duration(opts.RaceMs+3000)*time.Millisecond, solverArgs(strings.TrimSuffix(s, "/sliced"), f, opts.RaceMs, opts.Seed))
			ans := "unknown"
			for _, ln := range strings.Split(out, "\n") {
				ln = strings.TrimSpace(ln)
				if ln == "sat" || ln == "unsat" || ln == "unknown" || ln == "timeout" {
					ans = ln
					break
				}
			}
			if sliced && ans == "sat" {
				ans = "unknown" // a model of fewer assumptions refutes nothing
			}
			ch <- res{s, ans, out, time.Since(t0)}
		}(s)
	}
	o.Status = "undecided"
	var outs []string
	for range solvers {
		r := <-ch
		stats.add("", r.d)
		outs = append(outs, fmt.Sprintf("[%s] %s (%.2fs)", r.solver, r.ans, r.d.Seconds()))
		if r.ans == "unsat" {
			o.Status, o.Solver, o.TimeS = "proved", r.solver, r.d.Seconds()
			stats.add(r.solver, 0)
			cancel()
			break
		}
		if r.ans == "sat" {
			o.Status, o.Solver, o.TimeS, o.Model = "refuted", r.solver, r.d.Seconds(), r.out
			cancel()
			break
		}
	}
	o.Output = strings.Join(outs, "; ")
	o.File = file
}

func runCmd(timeout time.Duration, args []string) (string, error) {
	return runCmdCtx(context.Background(), timeout, args)
}

func runCmdCtx(ctx context.Context, timeout time.Duration, args []string) (string, error) {
	ctx2, cancel := context.WithTimeout(ctx, timeout)
	defer cancel()
	cmd := exec.CommandContext(ctx2, args[0], args[1:]...)
	var buf bytes.Buffer
	cmd.Stdout = &buf
	cmd.Stderr = &buf
	err := cmd.Run()
	return buf.String(), err
}

// goalAntecedents returns the conjuncts A1..An of a goal (=> (and A1 .. An) B), looking through nested implications.
func goalAntecedents(g string) []string {
	var out []string
	for depth := 0; depth < 4; depth++ {
		parts := splitSexp(g)
		if len(parts) != 3 || parts[0] != "=>" {
			break
		}
		var flat func(a string)
		flat = func(a string) {
			ps := splitSexp(a)
			if len(ps) > 1 && ps[0] == "and" {
				for _, c := range ps[1:] {
					flat(c)
				}
				return
			}
			out = append(out, a)
		}
		flat(parts[1])
		g = parts[2]
	}
	return out
}
