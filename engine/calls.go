package engine

import (
	"fmt"
	"go/token"
	"go/types"
	"sort"
	"strings"

	"golang.org/x/tools/go/ssa"
)

func resultVal(g *Gen, res *types.Tuple, hint string) Val {
	switch res.Len() {
	case 0:
		return Val{}
	case 1:
		return g.fresh(res.At(0).Type(), hint)
	}
	return g.fresh(res, hint)
}

func externKey(fn *ssa.Function) string {
	pkg := ""
	if fn.Pkg != nil {
		pkg = fn.Pkg.Pkg.Name()
	} else if fn.Object() != nil && fn.Object().Pkg() != nil {
		pkg = fn.Object().Pkg().Name()
	}
	if recv := fn.Signature.Recv(); recv != nil {
		t := recv.Type().String()
		ptr := ""
		if strings.HasPrefix(t, "*") {
			ptr = "*"
			t = t[1:]
		}
		if i := strings.LastIndex(t, "."); i >= 0 {
			if pkg == "" {
				pp := t[:i]
				if j := strings.LastIndex(pp, "/"); j >= 0 {
					pp = pp[j+1:]
				}
				pkg = pp
			}
			t = t[i+1:]
		}
		return fmt.Sprintf("extern:%s.(%s%s).%s", pkg, ptr, t, fn.Name())
	}
	return "extern:" + pkg + "." + fn.Name()
}

// call gives semantics to a call instruction.
func (g *Gen) call(b *ssa.BasicBlock, ins ssa.Instruction, c *ssa.CallCommon, h Heap, guard string) (Val, Heap) {
	res := c.Signature().Results()
	pos := ins.Pos()
	if c.IsInvoke() {
		recv := g.val(c.Value)
		g.safety("nil", pos, guard, not(eq(sx("i-typ", recv.T), "0")), "call", "sel")
		var args []Val
		for _, a := range c.Args {
			args = append(args, g.val(a))
		}
		fc := g.interfaceContract(c)
		if fc == nil {
			g.Assumed[fmt.Sprintf("interface call %s.%s: no contract (arbitrary results, no effect on modelled state)", typeName(c.Value.Type()), c.Method.Name())] = true
			return resultVal(g, res, "invoke:"+c.Method.Name()), h
		}
		g.Assumed["assumed contract of the interface method "+strings.TrimPrefix(fc.Key, "interface:")+" (arbitrary implementation behind it)"] = true
		names := append([]string{"recv"}, fc.Params...)
		return g.applyContract(b, fc, names, append([]Val{recv}, args...), res, nil, h, guard, pos, c.Method.Name(), nil)
	}
	if bi, ok := c.Value.(*ssa.Builtin); ok {
		return g.builtin(b, ins, bi, c, h, guard)
	}
	var args []Val
	for _, a := range c.Args {
		args = append(args, g.val(a))
	}
	fn := c.StaticCallee()
	if fn == nil {
		fn = g.staticFn[c.Value]
	}
	if fn == nil {
		// dynamic call through a function value: contract by named function type
		if nt, ok := c.Value.Type().(*types.Named); ok {
			key := "functype:" + nt.Obj().Pkg().Name() + "." + nt.Obj().Name()
			if fc, ok := g.P.Contract.Funcs[key]; ok {
				return g.applyContract(b, fc, fc.Params, args, res, nil, h, guard, pos, nt.Obj().Name(), nil)
			}
		}
		g.Assumed["dynamic call "+c.Value.String()+" without contract: all modelled state havocked"] = true
		return resultVal(g, res, "dyn"), g.havocAll(h)
	}
	// receiver non-nil for pointer receivers
	if fn.Signature.Recv() != nil && len(args) > 0 && args[0].S == SRef {
		nilable := false
		if fc := g.P.contractFor(fn); fc != nil {
			_, nilable = fc.Flags["nilable_recv"]
		}
		if !nilable && args[0].T != "null" {
			g.safety("nil", pos, guard, not(eq(args[0].T, "null")), "call", "sel")
		}
	}
	var names []string
	for _, p := range fn.Params {
		names = append(names, p.Name())
	}
	inRepo := fn.Pkg != nil && isRepoPkg(fn.Pkg.Pkg)
	if inRepo {
		fc := g.P.contractFor(fn)
		if fc != nil {
			// a closure created here: its free variables are visible to its contract under their source names
			if mc, ok := c.Value.(*ssa.MakeClosure); ok {
				for i, fv := range fn.FreeVars {
					if i < len(mc.Bindings) {
						cell := g.val(mc.Bindings[i])
						names = append(names, fv.Name())
						args = append(args, g.loadAt(h, cell, derefType(fv.Type())))
					}
				}
			}
			return g.applyContract(b, fc, names, args, res, fn, h, guard, pos, FuncKey(fn), fn)
		}
		// default contract: havoc the write set, arbitrary results
		ws, all := g.P.writeSet(fn)
		h2 := h
		if all {
			h2 = g.havocAll(h)
		} else {
			h2 = g.havocComps(h, ws, "call:"+fn.Name())
		}
		r := resultVal(g, res, "ret:"+fn.Name())
		g.assumeAllocated(h2, r)
		g.assumeStructInvs(h2, guard)
		return r, h2
	}
	key := externKey(fn)
	switch key {
	case "extern:errors.New":
		g.Assumed["errors.New / fmt.Errorf return a new error object; errors.Is follows %w wrapping (A6)"] = true
		return g.freshError(h, "")
	case "extern:fmt.Errorf":
		g.Assumed["errors.New / fmt.Errorf return a new error object; errors.Is follows %w wrapping (A6)"] = true
		return g.freshError(h, g.wrappedOperand(c, args, h))
	}
	if fc, ok := g.P.Contract.Funcs[key]; ok {
		g.Assumed["assumed contract of the external function "+strings.TrimPrefix(key, "extern:")+" (contracts/external.contracts)"] = true
		pn := fc.Params
		if fn.Signature.Recv() != nil {
			pn = append([]string{"recv"}, pn...)
		}
		return g.applyContract(b, fc, pn, args, res, nil, h, guard, pos, strings.TrimPrefix(key, "extern:"), nil)
	}
	g.Assumed["external call "+strings.TrimPrefix(key, "extern:")+": no contract (total, arbitrary results, writes only through slice arguments)"] = true
	h2 := h
	for _, a := range args {
		if a.S == SSlice && a.Ty != nil {
			if st, ok := a.Ty.Underlying().(*types.Slice); ok {
				if so := g.sortOf(st.Elem()); so != "" {
					h2 = g.havocElems(h2, so, sx("s-arr", a.T))
				}
			}
		}
	}
	// a function value passed to unknown code may be called by it: everything that callback can write is havocked
	for _, av := range c.Args {
		if _, isFn := av.Type().Underlying().(*types.Signature); !isFn {
			continue
		}
		var cb *ssa.Function
		switch x := av.(type) {
		case *ssa.MakeClosure:
			cb, _ = x.Fn.(*ssa.Function)
		case *ssa.Function:
			cb = x
		}
		if cb == nil {
			h2 = g.havocAll(h2)
			continue
		}
		g.Assumed["external call "+strings.TrimPrefix(key, "extern:")+": may invoke its callback argument any number of times (the callback's write set is havocked)"] = true
		if ws, all := g.P.writeSet(cb); all {
			h2 = g.havocAll(h2)
		} else {
			h2 = g.havocComps(h2, ws, "callback:"+cb.Name())
		}
	}
	r := resultVal(g, res, "ext:"+fn.Name())
	h2 = g.allocHavoc(h2)
	g.assumeAllocated(h2, r)
	return r, h2
}

func (g *Gen) interfaceContract(c *ssa.CallCommon) *FuncContract {
	m := c.Method
	// by the static interface type of the receiver
	if nt, ok := c.Value.Type().(*types.Named); ok && nt.Obj().Pkg() != nil {
		if fc, ok := g.P.Contract.Funcs["interface:"+nt.Obj().Pkg().Name()+"."+nt.Obj().Name()+"."+m.Name()]; ok {
			return fc
		}
	}
	if nt, ok := c.Value.Type().(*types.Named); ok && nt.Obj().Pkg() == nil { // error
		if fc, ok := g.P.Contract.Funcs["interface:"+nt.Obj().Name()+"."+m.Name()]; ok {
			return fc
		}
	}
	// by the interface that declares the method
	if sig, ok := m.Type().(*types.Signature); ok && sig.Recv() != nil {
		if nt, ok := sig.Recv().Type().(*types.Named); ok && nt.Obj().Pkg() != nil {
			if fc, ok := g.P.Contract.Funcs["interface:"+nt.Obj().Pkg().Name()+"."+nt.Obj().Name()+"."+m.Name()]; ok {
				return fc
			}
		}
	}
	return nil
}

func (g *Gen) havocComps(h Heap, comps []string, hint string) Heap {
	if len(comps) == 0 {
		return h
	}
	h = h.clone()
	sort.Strings(comps)
	for _, c := range comps {
		so, ok := g.compSort[c]
		if !ok {
			continue
		}
		if strings.HasPrefix(c, "DEFER|") {
			continue
		}
		n := g.S.freshName(c + "@" + hint)
		g.S.declare(n, so)
		if c == "ALLOC" {
			old := g.hget(h, c)
			g.S.assert(fmt.Sprintf("(forall ((r Ref)) (! (=> (select %s r) (select %s r)) :pattern ((select %s r))))", old, n, n))
			if init := g.initSym(c); init != old {
				g.S.assert(fmt.Sprintf("(forall ((r Ref)) (! (=> (select %s r) (select %s r)) :pattern ((select %s r))))", init, n, n))
			}
			g.S.assert(not(sel(n, "null")))
		}
		h[c] = n
	}
	for _, c := range comps {
		if c == compE(SRef) {
			g.closedElems(h)
		}
	}
	return h
}

func (g *Gen) allocHavoc(h Heap) Heap {
	return g.havocComps(h, []string{g.allocComp()}, "alloc")
}

func (g *Gen) havocAll(h Heap) Heap {
	g.usedAllHavoc = true
	set := map[string]bool{}
	for _, c := range g.allComps {
		set[c] = true
	}
	for c := range h {
		set[c] = true
	}
	for c := range g.compSort {
		set[c] = true
	}
	var cs []string
	for c := range set {
		cs = append(cs, c)
	}
	g.curAll = true
	return g.havocComps(h, cs, "all")
}

func (g *Gen) havocElems(h Heap, so Sort, arr string) Heap {
	comp := g.elemComp(so)
	inner := g.S.freshName("elems")
	g.S.declare(inner, arrSort("Int", string(so)))
	h = h.clone()
	h[comp] = store(g.hget(h, comp), arr, inner)
	return h
}

// applyContract: assert requires, havoc assigns, assume ensures.
func (g *Gen) applyContract(b *ssa.BasicBlock, fc *FuncContract, names []string, args []Val, res *types.Tuple, sigFn *ssa.Function,
	h Heap, guard string, pos token.Pos, calleeName string, callee *ssa.Function) (Val, Heap) {
	env := &Env{g: g, vars: map[string]Val{}, heap: h, old: h, noLocals: true}
	if fc.Kind == "functype" {
		env.noLocals = false
		env.block = b
		env.atEnd = true
		if g.Fn.Pkg != nil {
			env.pkg = g.Fn.Pkg.Pkg
		}
	}
	if callee != nil && callee.Pkg != nil {
		env.pkg = callee.Pkg.Pkg
	} else if fc.Pkg != "" {
		env.pkg = g.pkgByName(fc.Pkg)
	}
	for i, n := range names {
		if i < len(args) {
			env.vars[n] = args[i]
		}
	}
	if callee != nil && callee.Signature.Recv() != nil && len(args) > 0 {
		env.vars["recv"] = args[0]
		env.vars["this"] = args[0]
	}
	anchor := g.anchorText(pos, "call")
	// what the callee guarantees is assumed only for executions in which its preconditions held at the call: were the
	// postconditions visible while a precondition is checked, a requires that follows from the callee's own ensures over
	// unmodified state (requires ok(x) / ensures ok(x)) would prove itself
	var preHeld []string
	if g.mode.Contracts || g.mode.Sweep {
		for _, c := range fc.Requires {
			t, err := env.evalBool(c.Expr)
			if err != nil {
				g.unsupported("%s:%d: requires %q at call %s: %v", shortFile(c.File), c.Line, c.Text, anchor, err)
				continue
			}
			g.oblige("pre", anchor+" :: "+c.Text, c.Text, guard, t, pos)
			preHeld = append(preHeld, t)
		}
		if callee != nil {
			g.checkStructInvs(h, guard, pos, "call "+anchor)
			g.recursionMeasure(env, fc, callee, guard, pos, anchor)
		}
	}
	// havoc
	h2 := h
	if fc.HasAssign {
		for _, a := range fc.Assigns {
			var err error
			h2, err = g.havocDesignator(env, a, h2)
			if err != nil {
				g.unsupported("%s: assigns %q: %v", fc.Key, a, err)
			}
		}
		h2 = g.allocHavoc(h2)
	} else if callee != nil {
		ws, all := g.P.writeSet(callee)
		if all {
			h2 = g.havocAll(h)
		} else {
			h2 = g.havocComps(h, ws, "call:"+callee.Name())
		}
	} else if fc.Kind == "functype" {
		h2 = g.havocAll(h)
	} else {
		h2 = g.allocHavoc(h)
	}
	r := resultVal(g, res, "ret:"+calleeName)
	g.assumeAllocated(h2, r)
	env2 := &Env{g: g, vars: env.vars, heap: h2, old: h, noLocals: env.noLocals, pkg: env.pkg, block: env.block, atEnd: env.atEnd}
	g.bindResults(env2, r, res)
	g0 := guard
	guard = g.curGuard(guard)
	// when the preconditions strengthened the block's path condition (the usual case) that condition already is
	// "reached the call and every precondition held"; otherwise name the conjunction
	if len(preHeld) > 0 && (guard == g0 || g.curBlock == nil || guard != g.reach[g.curBlock]) {
		pg := g.S.freshName("pre.held")
		g.S.declare(pg, "Bool")
		g.S.assert(eq(pg, and(append([]string{guard}, preHeld...)...)))
		guard = pg
	}
	for _, c := range fc.Ensures {
		g.assumeClause(env2, c, guard)
	}
	// ghost bookkeeping defined by the callee's result
	for _, d := range fc.Defines {
		v, err := env2.eval(d.Expr)
		if err != nil {
			g.unsupported("%s: defines %q: %v", fc.Key, d.Text, err)
			continue
		}
		h3, err := g.setDesignator(env2, d.Target, v, h2)
		if err != nil {
			g.unsupported("%s: defines %q: %v", fc.Key, d.Text, err)
			continue
		}
		h2 = h3
		env2.heap = h2
	}
	if callee != nil || fc.Kind == "functype" {
		g.assumeStructInvs(h2, guard)
	}
	return r, h2
}

func (g *Gen) bindResults(env *Env, r Val, res *types.Tuple) {
	if res == nil || res.Len() == 0 {
		return
	}
	var rs []Val
	if res.Len() == 1 {
		rs = []Val{r}
	} else {
		rs = r.Flds
	}
	for i, v := range rs {
		env.vars[fmt.Sprintf("result%d", i)] = v
		if n := res.At(i).Name(); n != "" && n != "_" {
			env.vars[n] = v
		}
	}
	env.vars["result"] = rs[0]
	last := res.At(res.Len() - 1)
	if types.Identical(last.Type(), types.Universe.Lookup("error").Type()) {
		if _, taken := env.vars["err"]; !taken || last.Name() == "err" {
			env.vars["err"] = rs[len(rs)-1]
		}
	}
	if b, ok := last.Type().Underlying().(*types.Basic); ok && b.Kind() == types.Bool && res.Len() > 1 {
		if last.Name() == "" {
			env.vars["ok"] = rs[len(rs)-1]
		}
	}
}

// frameHavoc: components the callee may write but that its assigns clause does not list stay unchanged on
// every object allocated before the call (fresh objects may be initialised).
func (g *Gen) frameHavoc(before, after Heap, ws []string) Heap {
	out := after
	for _, c := range ws {
		if _, listed := after[c]; listed && after[c] != g.hget(before, c) {
			continue // explicitly assigned
		}
		so, ok := g.compSort[c]
		if !ok || c == "ALLOC" || strings.HasPrefix(c, "DEFER|") {
			if c == "ALLOC" {
				out = g.allocHavoc(out)
			}
			continue
		}
		if !strings.HasPrefix(so, "(Array Ref ") {
			continue // ghost scalars not listed in assigns are unchanged
		}
		old := g.hget(before, c)
		n := g.S.freshName(c + "@frame")
		g.S.declare(n, so)
		al := g.hget(before, g.allocComp())
		g.S.assert(fmt.Sprintf("(forall ((r Ref)) (! (=> (select %s r) (= (select %s r) (select %s r))) :pattern ((select %s r))))", al, n, old, n))
		out = out.clone()
		out[c] = n
	}
	return out
}

// setDesignator assigns v to a ghost variable or ghost map entry.
func (g *Gen) setDesignator(env *Env, target string, v Val, h Heap) (Heap, error) {
	target = strings.TrimSpace(target)
	if gv, ok := g.P.Contract.Ghosts[target]; ok {
		comp, _, _ := g.ghostComp(gv)
		h = h.clone()
		h[comp] = v.T
		return h, nil
	}
	e, err := ParseExpr(target)
	if err != nil {
		return h, err
	}
	if x, ok := e.(*EIndex); ok {
		if id, ok := x.X.(*EIdent); ok {
			if gv, ok := g.P.Contract.Ghosts[id.Name]; ok {
				comp, _, _ := g.ghostComp(gv)
				k, err := env.eval(x.I)
				if err != nil {
					return h, err
				}
				h = h.clone()
				h[comp] = store(g.hget(h, comp), k.T, v.T)
				return h, nil
			}
		}
	}
	return h, fmt.Errorf("defines target must be a ghost variable or ghost map entry")
}

// ghostsWithPrefix expands "H_*" to the ghost variables with that prefix.
func (g *Gen) ghostsWithPrefix(item string) []string {
	if !strings.HasSuffix(item, "*") || item == "*" {
		return nil
	}
	pre := strings.TrimSuffix(item, "*")
	var out []string
	for _, gv := range g.sortedGhosts() {
		if strings.HasPrefix(gv.Name, pre) {
			out = append(out, gv.Name)
		}
	}
	return out
}


// typeFieldComp resolves "Type.field" / "pkg.Type.field" to the field component (every object of that type).
func (g *Gen) typeFieldComp(env *Env, x *ESel) (string, bool) {
	var tn *types.TypeName
	switch t := x.X.(type) {
	case *EIdent:
		if _, isVar := env.vars[t.Name]; isVar {
			return "", false
		}
		if !env.noLocals {
			if _, isLocal := g.lookupLocal(t.Name, env.block, env.atEnd); isLocal {
				return "", false
			}
		}
		if env.pkg != nil {
			tn, _ = env.pkg.Scope().Lookup(t.Name).(*types.TypeName)
		}
	case *ESel:
		if id, ok := t.X.(*EIdent); ok {
			if _, isVar := env.vars[id.Name]; !isVar {
				if p := g.pkgByName(id.Name); p != nil {
					tn, _ = p.Scope().Lookup(t.Name).(*types.TypeName)
				}
			}
		}
	}
	if tn == nil {
		return "", false
	}
	st := structOf(tn.Type())
	for i := 0; st != nil && i < st.NumFields(); i++ {
		if st.Field(i).Name() == x.Name {
			comp, _ := g.fieldComp(tn.Type(), st.Field(i))
			return comp, true
		}
	}
	return "", false
}

// havocDesignator havocs one item of an assigns clause.
func (g *Gen) havocDesignator(env *Env, item string, h Heap) (Heap, error) {
	item = strings.TrimSpace(item)
	if gs := g.ghostsWithPrefix(item); len(gs) > 0 {
		var comps []string
		for _, n := range gs {
			c, _, _ := g.ghostComp(g.P.Contract.Ghosts[n])
			comps = append(comps, c)
		}
		return g.havocComps(h, comps, "assigns"), nil
	}
	switch item {
	case "*":
		return g.havocAll(h), nil
	case "alloc":
		return g.allocHavoc(h), nil
	}
	if strings.HasPrefix(item, "comp:") {
		return g.havocComps(h, []string{strings.TrimPrefix(item, "comp:")}, "assigns"), nil
	}
	if gv, ok := g.P.Contract.Ghosts[item]; ok {
		comp, _, _ := g.ghostComp(gv)
		return g.havocComps(h, []string{comp}, "assigns"), nil
	}
	e, err := ParseExpr(item)
	if err != nil {
		return h, err
	}
	cur := &Env{g: g, vars: env.vars, heap: h, old: env.old, noLocals: env.noLocals, pkg: env.pkg, block: env.block, atEnd: env.atEnd}
	switch x := e.(type) {
	case *ESel:
		// Type.field : every object ; expr.field : one object
		if comp, ok := g.typeFieldComp(cur, x); ok {
			return g.havocComps(h, []string{comp}, "assigns"), nil
		}
		if id, ok := x.X.(*EIdent); ok {
			if _, isVar := env.vars[id.Name]; !isVar && env.pkg != nil {
				if tn, ok := env.pkg.Scope().Lookup(id.Name).(*types.TypeName); ok {
					st := structOf(tn.Type())
					if st == nil {
						return h, fmt.Errorf("%s is not a struct", id.Name)
					}
					for i := 0; i < st.NumFields(); i++ {
						if st.Field(i).Name() == x.Name {
							comp, _ := g.fieldComp(tn.Type(), st.Field(i))
							return g.havocComps(h, []string{comp}, "assigns"), nil
						}
					}
					return h, fmt.Errorf("no field %s", x.Name)
				}
			}
		}
		base, err := cur.eval(x.X)
		if err != nil {
			return h, err
		}
		if base.Ty == nil {
			return h, fmt.Errorf("untyped base")
		}
		obj, path, _ := types.LookupFieldOrMethod(base.Ty, true, cur.pkgOrNil(base.Ty), x.Name)
		fv, ok := obj.(*types.Var)
		if !ok {
			return h, fmt.Errorf("no field %s", x.Name)
		}
		curV := base
		for k, idx := range path {
			T := derefType(curV.Ty)
			if k == len(path)-1 {
				if _, isStruct := fv.Type().Underlying().(*types.Struct); isStruct {
					return h, fmt.Errorf("struct-typed field in assigns")
				}
				comp, so := g.fieldComp(T, structOf(T).Field(idx))
				n := g.S.freshName("assigned:" + x.Name)
				g.S.declare(n, string(so))
				nv := Val{T: n, S: so, Ty: fv.Type()}
				g.S.assert(g.typeAssume(nv))
				h = h.clone()
				h[comp] = store(g.hget(h, comp), curV.T, n)
				return h, nil
			}
			curV = g.loadField(h, T, curV.T, idx)
		}
	case *ECall:
		if x.Fun == "elems" && len(x.Args) == 1 {
			v, err := cur.eval(x.Args[0])
			if err != nil {
				return h, err
			}
			et := types.Type(types.Typ[types.Uint8])
			if v.Ty != nil {
				if st, ok := v.Ty.Underlying().(*types.Slice); ok {
					et = st.Elem()
				}
			}
			return g.havocElems(h, g.sortOf(et), sx("s-arr", v.T)), nil
		}
		if x.Fun == "map" && len(x.Args) == 1 {
			v, err := cur.eval(x.Args[0])
			if err != nil {
				return h, err
			}
			mt, ok := v.Ty.Underlying().(*types.Map)
			if !ok {
				return h, fmt.Errorf("map() of non-map")
			}
			ks, vs := g.sortOf(mt.Key()), g.sortOf(mt.Elem())
			md, mv := g.mapDomComp(ks, vs), g.mapValComp(ks, vs)
			d := g.S.freshName("assigned:mapdom")
			g.S.declare(d, arrSort(string(ks), "Bool"))
			vv := g.S.freshName("assigned:mapval")
			g.S.declare(vv, arrSort(string(ks), string(vs)))
			h = h.clone()
			h[md] = store(g.hget(h, md), v.T, d)
			h[mv] = store(g.hget(h, mv), v.T, vv)
			return h, nil
		}
	case *EIndex:
		if id, ok := x.X.(*EIdent); ok {
			if gv, ok := g.P.Contract.Ghosts[id.Name]; ok {
				comp, _, vs := g.ghostComp(gv)
				k, err := cur.eval(x.I)
				if err != nil {
					return h, err
				}
				n := g.S.freshName("assigned:" + id.Name)
				g.S.declare(n, string(vs))
				h = h.clone()
				h[comp] = store(g.hget(h, comp), k.T, n)
				return h, nil
			}
		}
	}
	return h, fmt.Errorf("unsupported designator")
}

// ---------------------------------------------------------------- builtins

func (g *Gen) builtin(b *ssa.BasicBlock, ins ssa.Instruction, bi *ssa.Builtin, c *ssa.CallCommon, h Heap, guard string) (Val, Heap) {
	var args []Val
	for _, a := range c.Args {
		args = append(args, g.val(a))
	}
	intT := types.Typ[types.Int]
	switch bi.Name() {
	case "len":
		a := args[0]
		switch a.S {
		case SSlice:
			return Val{T: sx("s-len", a.T), S: SInt, Ty: intT}, h
		case SStr:
			return Val{T: sx("slen", a.T), S: SInt, Ty: intT}, h
		case SRef:
			if mt, ok := a.Ty.Underlying().(*types.Map); ok {
				ks, vs := g.sortOf(mt.Key()), g.sortOf(mt.Elem())
				if ks != "" && vs != "" {
					r := g.fresh(intT, "maplen")
					g.S.assert(sx("<=", "0", r.T))
					return r, h
				}
			}
		}
		r := g.fresh(intT, "len")
		g.S.assert(sx("<=", "0", r.T))
		return r, h
	case "cap":
		if args[0].S == SSlice {
			return Val{T: sx("s-cap", args[0].T), S: SInt, Ty: intT}, h
		}
		return g.fresh(intT, "cap"), h
	case "append":
		return g.appendBuiltin(b, ins, c, args, h, guard)
	case "copy":
		r := g.fresh(intT, "copy")
		dst := args[0]
		if st, ok := dst.Ty.Underlying().(*types.Slice); ok {
			if so := g.sortOf(st.Elem()); so != "" {
				h = g.havocElems(h, so, sx("s-arr", dst.T))
			}
		}
		g.Assumed["builtin copy: destination contents unconstrained"] = true
		return r, h
	case "delete":
		m, k := args[0], args[1]
		mt := m.Ty.Underlying().(*types.Map)
		ks, vs := g.sortOf(mt.Key()), g.sortOf(mt.Elem())
		if ks != "" && vs != "" {
			md := g.mapDomComp(ks, vs)
			h = h.clone()
			d := g.hget(h, md)
			// delete on a nil map is a no-op
			h[md] = ite(eq(m.T, "null"), d, store(d, m.T, store(sel(d, m.T), k.T, "false")))
		}
		return Val{}, h
	case "print", "println":
		return Val{}, h
	case "recover":
		return g.fresh(c.Signature().Results().At(0).Type(), "recover"), h
	case "min", "max":
		a, bb := args[0], args[1]
		if a.S == SInt {
			op := "<="
			if bi.Name() == "max" {
				op = ">="
			}
			return Val{T: ite(sx(op, a.T, bb.T), a.T, bb.T), S: SInt, Ty: a.Ty}, h
		}
	}
	g.unsupported("builtin %s", bi.Name())
	return resultVal(g, c.Signature().Results(), "builtin"), h
}

// constLenSource recognises `new [N]T; store...; slice` variadic packs and returns N.
func constLenSource(v ssa.Value) (int64, bool) {
	sl, ok := v.(*ssa.Slice)
	if !ok || sl.Low != nil || sl.High != nil {
		return 0, false
	}
	al, ok := sl.X.(*ssa.Alloc)
	if !ok {
		return 0, false
	}
	at, ok := derefType(al.Type()).Underlying().(*types.Array)
	if !ok {
		return 0, false
	}
	return at.Len(), true
}

func (g *Gen) appendBuiltin(b *ssa.BasicBlock, ins ssa.Instruction, c *ssa.CallCommon, args []Val, h Heap, guard string) (Val, Heap) {
	s, t := args[0], args[1]
	st, _ := s.Ty.Underlying().(*types.Slice)
	if st == nil {
		if st2, ok := c.Args[0].Type().Underlying().(*types.Slice); ok {
			st = st2
		}
	}
	resT := ins.(ssa.Value).Type()
	if st == nil {
		return g.fresh(resT, "append"), h
	}
	so := g.sortOf(st.Elem())
	if so == "" {
		g.unsupported("append of struct elements")
		return g.fresh(resT, "append"), g.allocHavoc(h)
	}
	comp := g.elemComp(so)
	E := g.hget(h, comp)
	n := sx("s-len", s.T)
	var k string
	src := func(j string) string { return "" }
	if t.S == SStr {
		k = sx("slen", t.T)
		src = func(j string) string { return sx("sat", t.T, j) }
	} else {
		k = sx("s-len", t.T)
		inner := sel(E, sx("s-arr", t.T))
		src = func(j string) string { return sel(inner, sx("+", sx("s-off", t.T), j)) }
	}
	arrS, offS, capS := sx("s-arr", s.T), sx("s-off", s.T), sx("s-cap", s.T)
	nk := g.S.freshName("append.len")
	g.S.declare(nk, "Int")
	g.S.assert(eq(nk, sx("+", n, k)))
	fits := sx("<=", nk, capS)
	oldInner := sel(E, arrS)
	r, h2 := g.freshRef(h, "append")
	newCap := g.S.freshName("append.cap")
	g.S.declare(newCap, "Int")
	g.S.assert(and(sx("<=", nk, newCap), sx("<=", newCap, maxLen)))
	inPlace := g.S.freshName("append.in")
	g.S.declare(inPlace, arrSort("Int", string(so)))
	re := g.S.freshName("append.re")
	g.S.declare(re, arrSort("Int", string(so)))
	if cn, ok := constLenSource(c.Args[1]); ok && cn <= 4 && t.S != SStr {
		// explicit stores
		ip := oldInner
		for j := int64(0); j < cn; j++ {
			ip = store(ip, sx("+", offS, n, num(j)), src(num(j)))
		}
		g.S.assert(eq(inPlace, ip))
		g.S.assert(fmt.Sprintf("(forall ((j Int)) (! (=> (and (<= 0 j) (< j %s)) (= (select %s j) (select %s (+ %s j)))) :pattern ((select %s j))))", n, re, oldInner, offS, re))
		for j := int64(0); j < cn; j++ {
			g.S.assert(eq(sel(re, sx("+", n, num(j))), src(num(j))))
		}
	} else {
		g.S.assert(fmt.Sprintf("(forall ((j Int)) (! (= (select %s j) (ite (and (<= (+ %s %s) j) (< j (+ %s %s))) %s (select %s j))) :pattern ((select %s j))))",
			inPlace, offS, n, offS, nk, src(sx("-", "j", sx("+", offS, n))), oldInner, inPlace))
		g.S.assert(fmt.Sprintf("(forall ((j Int)) (! (=> (and (<= 0 j) (< j %s)) (= (select %s j) (ite (< j %s) (select %s (+ %s j)) %s))) :pattern ((select %s j))))",
			nk, re, n, oldInner, offS, src(sx("-", "j", n)), re))
	}
	// overflow of the length is a runtime panic ("growslice: len out of range"); lengths are bounded by maxLen each
	h3 := h2.clone()
	E2 := g.hget(h2, comp)
	h3[comp] = ite(fits, store(E2, arrS, inPlace), store(E2, r, re))
	resTerm := ite(fits, sx("mk-slice", arrS, offS, nk, capS), sx("mk-slice", r, "0", nk, newCap))
	rv := Val{T: resTerm, S: SSlice, Ty: resT}
	nm := g.S.freshName("append.res")
	g.S.declare(nm, "Slice")
	g.S.assert(eq(nm, resTerm))
	rv.T = nm
	return rv, h3
}

// ---------------------------------------------------------------- defers and returns

func (g *Gen) runDefers(b *ssa.BasicBlock, x *ssa.RunDefers, h Heap, guard string) Heap {
	for k := len(g.defers) - 1; k >= 0; k-- {
		d := g.defers[k]
		comp := fmt.Sprintf("DEFER|%d", k)
		cond, ok := h[comp]
		if !ok || cond == "false" {
			continue
		}
		_, h2 := g.call(b, d, &d.Call, h, and(guard, cond))
		if cond == "true" {
			h = h2
			continue
		}
		// merge
		m := h.clone()
		keys := map[string]bool{}
		for c := range h2 {
			keys[c] = true
		}
		var ks []string
		for c := range keys {
			ks = append(ks, c)
		}
		sort.Strings(ks)
		for _, c := range ks {
			a, bb := g.hget(h2, c), g.hget(h, c)
			if a != bb {
				m[c] = ite(cond, a, bb)
			}
		}
		h = m
	}
	return h
}

func (g *Gen) ret(b *ssa.BasicBlock, x *ssa.Return, h Heap, guard string) {
	g.retBlocks = append(g.retBlocks, b)
	res := g.Fn.Signature.Results()
	var r Val
	switch len(x.Results) {
	case 0:
	case 1:
		r = g.val(x.Results[0])
	default:
		r = Val{Ty: res}
		for _, v := range x.Results {
			r.Flds = append(r.Flds, g.val(v))
		}
	}
	if !g.mode.Contracts {
		g.checkStructInvs(h, guard, x.Pos(), "return")
		return
	}
	env := g.newEnv(h, g.entryHeap, b)
	env.atEnd = true
	g.bindResults(env, r, res)
	post := func(fc *FuncContract, label string) {
		for _, c := range fc.Ensures {
			t, err := env.evalBool(c.Expr)
			if err != nil {
				g.unsupported("%s:%d: ensures %q: %v", shortFile(c.File), c.Line, c.Text, err)
				continue
			}
			g.oblige("post", c.Text, c.Text, guard, t, x.Pos())
		}
	}
	if g.FT != nil {
		g.bindFunctypeParams(env)
		post(g.FT, "functype")
		if name, ok := g.P.ExecName[g.Fn]; ok {
			for _, ec := range g.FT.EnsuresExcept {
				skip := false
				for _, n := range ec.Names {
					if strings.EqualFold(strings.TrimSpace(n), name) {
						skip = true
					}
				}
				if skip {
					continue
				}
				c := ec.Clause
				t, err := env.evalBool(c.Expr)
				if err != nil {
					g.unsupported("%s:%d: ensures_except %q: %v", shortFile(c.File), c.Line, c.Text, err)
					continue
				}
				g.oblige("post", c.Text, c.Text, guard, t, x.Pos())
			}
		}
	}
	if g.FC != nil {
		post(g.FC, "")
	}
	if (g.FC != nil && g.FC.HasAssign) || (g.FT != nil && g.FT.HasAssign && (g.FC == nil || !g.FC.HasAssign || true)) {
		g.frameCheck(env, h, guard, x.Pos())
	}
	g.checkStructInvs(h, guard, x.Pos(), "return")
}

func (g *Gen) bindFunctypeParams(env *Env) {
	if g.FT == nil {
		return
	}
	for i, n := range g.FT.Params {
		if i < len(g.Fn.Params) {
			env.vars[n] = g.vals[g.Fn.Params[i]]
		}
	}
}

// frameCheck: at a return, every component not covered by the assigns clause is unchanged on objects
// that were allocated on entry.
// frameSpec resolves the assigns clauses of the unit: whole components, and per component the refs that may change.
func (g *Gen) frameSpec() (whole map[string]bool, allowed map[string][]string, assigns []string, ok bool) {
	if g.frameDone {
		return g.frameWhole, g.frameAllowed, g.frameAssigns, g.frameOK
	}
	g.frameDone = true
	allowed = map[string][]string{}
	whole = map[string]bool{}
	if g.FC != nil && g.FC.HasAssign {
		assigns = append(assigns, g.FC.Assigns...)
	}
	if g.FT != nil && g.FT.HasAssign {
		assigns = append(assigns, g.FT.Assigns...)
	}
	ok = true
	for _, a := range assigns {
		e0 := g.newEnv(g.entryHeap, g.entryHeap, g.Fn.Blocks[0])
		if g.FT != nil {
			g.bindFunctypeParams(e0)
		}
		comps, ref, err := g.designatorTargets(e0, a)
		if err != nil {
			if g.FT != nil && strings.Contains(err.Error(), "server") {
				continue // the closure does not capture the server: it cannot write through it
			}
			g.unsupported("%s: assigns %q: %v", g.FnName(), a, err)
			ok = false
			break
		}
		for _, comp := range comps {
			if comp == "*" {
				ok = false
			}
			if ref == "" {
				whole[comp] = true
			} else {
				allowed[comp] = append(allowed[comp], ref)
			}
		}
	}
	g.frameWhole, g.frameAllowed, g.frameAssigns, g.frameOK = whole, allowed, assigns, ok
	return
}

func (g *Gen) frameCheck(env *Env, h Heap, guard string, pos token.Pos) {
	whole, allowed, assigns, ok := g.frameSpec()
	if !ok {
		return
	}
	whole = copyBoolMap(whole)
	if g.FC != nil {
		for _, d := range g.FC.Defines {
			name := d.Target
			if i := strings.Index(name, "["); i >= 0 {
				name = name[:i]
			}
			if gv, ok := g.P.Contract.Ghosts[strings.TrimSpace(name)]; ok {
				c, _, _ := g.ghostComp(gv)
				whole[c] = true
			}
		}
	}
	var cs []string
	for c := range h {
		cs = append(cs, c)
	}
	sort.Strings(cs)
	al := g.hget(g.entryHeap, g.allocComp())
	for _, c := range cs {
		if c == "ALLOC" || strings.HasPrefix(c, "DEFER|") || whole[c] {
			continue
		}
		cur, init := h[c], g.initSym(c)
		if cur == init {
			continue
		}
		so := g.compSort[c]
		var goal string
		if strings.HasPrefix(so, "(Array Ref ") {
			var ex []string
			for _, r := range allowed[c] {
				ex = append(ex, not(eq("r", r)))
			}
			goal = fmt.Sprintf("(forall ((r Ref)) (=> %s (= (select %s r) (select %s r))))", and(append([]string{sel(al, "r")}, ex...)...), cur, init)
		} else {
			goal = eq(cur, init)
		}
		g.oblige("frame", c, "assigns "+strings.Join(assigns, ", "), guard, goal, pos)
	}
}

// designatorTarget resolves an assigns item to (component, ref-term or "" for the whole component).
func (g *Gen) designatorTargets(env *Env, item string) ([]string, string, error) {
	item = strings.TrimSpace(item)
	if gs := g.ghostsWithPrefix(item); len(gs) > 0 {
		var comps []string
		for _, n := range gs {
			c, _, _ := g.ghostComp(g.P.Contract.Ghosts[n])
			comps = append(comps, c)
		}
		return comps, "", nil
	}
	if e, err := ParseExpr(item); err == nil {
		if c, ok := e.(*ECall); ok && c.Fun == "map" && len(c.Args) == 1 {
			v, err := env.eval(c.Args[0])
			if err != nil {
				return nil, "", err
			}
			mt, ok := v.Ty.Underlying().(*types.Map)
			if !ok {
				return nil, "", fmt.Errorf("map() of non-map")
			}
			ks, vs := g.sortOf(mt.Key()), g.sortOf(mt.Elem())
			return []string{g.mapDomComp(ks, vs), g.mapValComp(ks, vs)}, v.T, nil
		}
	}
	c, r, err := g.designatorTarget(env, item)
	return []string{c}, r, err
}

func (g *Gen) designatorTarget(env *Env, item string) (string, string, error) {
	item = strings.TrimSpace(item)
	switch item {
	case "*":
		return "*", "", nil
	case "alloc":
		return "ALLOC", "", nil
	}
	if strings.HasPrefix(item, "comp:") {
		return strings.TrimPrefix(item, "comp:"), "", nil
	}
	if gv, ok := g.P.Contract.Ghosts[item]; ok {
		comp, _, _ := g.ghostComp(gv)
		return comp, "", nil
	}
	e, err := ParseExpr(item)
	if err != nil {
		return "", "", err
	}
	switch x := e.(type) {
	case *ESel:
		if comp, ok := g.typeFieldComp(env, x); ok {
			return comp, "", nil
		}
		if id, ok := x.X.(*EIdent); ok {
			if _, isVar := env.vars[id.Name]; !isVar && env.pkg != nil {
				if tn, ok := env.pkg.Scope().Lookup(id.Name).(*types.TypeName); ok {
					st := structOf(tn.Type())
					for i := 0; st != nil && i < st.NumFields(); i++ {
						if st.Field(i).Name() == x.Name {
							comp, _ := g.fieldComp(tn.Type(), st.Field(i))
							return comp, "", nil
						}
					}
				}
			}
		}
		base, err := env.eval(x.X)
		if err != nil {
			return "", "", err
		}
		_, path, _ := types.LookupFieldOrMethod(base.Ty, true, env.pkgOrNil(base.Ty), x.Name)
		cur := base
		for k, idx := range path {
			T := derefType(cur.Ty)
			if k == len(path)-1 {
				comp, _ := g.fieldComp(T, structOf(T).Field(idx))
				return comp, cur.T, nil
			}
			cur = g.loadField(env.heap, T, cur.T, idx)
		}
	case *ECall:
		if x.Fun == "elems" && len(x.Args) == 1 {
			v, err := env.eval(x.Args[0])
			if err != nil {
				return "", "", err
			}
			et := types.Type(types.Typ[types.Uint8])
			if v.Ty != nil {
				if st, ok := v.Ty.Underlying().(*types.Slice); ok {
					et = st.Elem()
				}
			}
			return g.elemComp(g.sortOf(et)), sx("s-arr", v.T), nil
		}
	case *EIndex:
		if id, ok := x.X.(*EIdent); ok {
			if gv, ok := g.P.Contract.Ghosts[id.Name]; ok {
				comp, _, _ := g.ghostComp(gv)
				return comp, "", nil
			}
		}
	}
	return "", "", fmt.Errorf("unsupported designator")
}

// recursionMeasure: a call inside a recursion cycle must decrease the callee's measure below the caller's.
func (g *Gen) recursionMeasure(env *Env, fc *FuncContract, callee *ssa.Function, guard string, pos token.Pos, anchor string) {
	if g.FC == nil || g.FC.Decreases == nil || fc.Decreases == nil || !g.mode.Contracts {
		return
	}
	if !g.P.sameCycle(g.Fn, callee) {
		return
	}
	mine, err := g.newEnv(g.entryHeap, g.entryHeap, g.Fn.Blocks[0]).eval(g.FC.Decreases.Expr)
	if err != nil {
		g.unsupported("decreases %q: %v", g.FC.Decreases.Text, err)
		return
	}
	theirs, err := env.eval(fc.Decreases.Expr)
	if err != nil {
		g.unsupported("decreases %q at call: %v", fc.Decreases.Text, err)
		return
	}
	g.oblige("dec-call", anchor+" :: "+fc.Decreases.Text, fc.Decreases.Text, guard, and(sx("<=", "0", mine.T), sx("<", theirs.T, mine.T)), pos)
}

// wrappedOperand finds the error operand of the (single) %w verb of a constant fmt.Errorf format.
func (g *Gen) wrappedOperand(c *ssa.CallCommon, args []Val, h Heap) string {
	if len(c.Args) < 2 {
		return ""
	}
	fc, ok := c.Args[0].(*ssa.Const)
	if !ok || fc.Value == nil {
		return g.fresh(types.Universe.Lookup("error").Type(), "wrapped?").T // unknown format: may wrap anything
	}
	format := strings.Trim(fc.Value.ExactString(), "\"")
	idx, k := -1, 0
	for i := 0; i+1 < len(format); i++ {
		if format[i] != '%' {
			continue
		}
		if format[i+1] == '%' {
			i++
			continue
		}
		j := i + 1
		for j < len(format) && strings.ContainsRune("+-# 0123456789.*[]", rune(format[j])) {
			j++
		}
		if j < len(format) && format[j] == 'w' {
			idx = k
		}
		k++
		i = j
	}
	if idx < 0 {
		return ""
	}
	va := args[len(args)-1]
	if va.S != SSlice {
		return ""
	}
	comp := g.elemComp(SIface)
	return sel(sel(g.hget(h, comp), sx("s-arr", va.T)), sx("+", sx("s-off", va.T), num(int64(idx))))
}

func copyBoolMap(m map[string]bool) map[string]bool {
	n := map[string]bool{}
	for k, v := range m {
		n[k] = v
	}
	return n
}
