package engine

import (
	"regexp"
	"strings"
)

var ghostSymRe = regexp.MustCompile(`\|G!([^@|]+)@[^|]*\|`)
var ghostArrDeclRe = regexp.MustCompile(`^\(declare-const \|G!([^@|]+)@[^|]*\| \(Array `)

// slicePrefix drops, from the assumptions of a unit, the assertions that only talk about ghost arrays the goal does not
// mention (typically the frame and post facts of the 10-40 handler-argument logs H_* that every handler call adds).
// Dropping assumptions can only make a query harder to refute, never easier to prove wrongly: an "unsat" of the sliced
// query is an "unsat" of the full one. Any other answer of a sliced query is ignored.
func slicePrefix(prefix, goal string) (string, int) {
	return sliceLines(prefix, prefix, goal)
}

// sliceQuery slices the unit's assumptions and the ground instances generated for the goal (d) by the ghost arrays of the goal itself.
func sliceQuery(prefix, d, goal string) (string, string, int) {
	p, n := sliceLines(prefix, prefix, goal)
	d2, m := sliceLines(d, prefix, goal)
	return p, strings.TrimSuffix(d2, "\n"), n + m
}

func sliceLines(text, decls, goal string) (string, int) {
	lines := strings.Split(decls, "\n")
	arr := map[string]bool{}
	for _, ln := range lines {
		if m := ghostArrDeclRe.FindStringSubmatch(ln); m != nil {
			arr[m[1]] = true
		}
	}
	rel := map[string]bool{}
	for _, m := range ghostSymRe.FindAllStringSubmatch(goal, -1) {
		if arr[m[1]] {
			rel[m[1]] = true
		}
	}
	var b strings.Builder
	dropped := 0
	for _, ln := range strings.Split(text, "\n") {
		if strings.HasPrefix(ln, "(assert") {
			ms := ghostSymRe.FindAllStringSubmatch(ln, -1)
			has, keep := false, false
			for _, m := range ms {
				if arr[m[1]] {
					has = true
					if rel[m[1]] {
						keep = true
						break
					}
				}
			}
			if has && !keep {
				dropped++
				continue
			}
		}
		b.WriteString(ln)
		b.WriteByte('\n')
	}
	return b.String(), dropped
}
