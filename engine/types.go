package engine

import (
	"fmt"
	"go/types"
	"strings"
)

// typeName gives a short stable name for a Go type, used in component names.
func typeName(t types.Type) string {
	return types.TypeString(t, func(p *types.Package) string { return p.Name() })
}

func isRepoPkg(p *types.Package) bool {
	return p != nil && strings.HasPrefix(p.Path(), RepoModule)
}

// isFlatStruct: struct values of this type are represented as the tuple of their fields.
// External struct types without exported fields are opaque values.
func isFlatStruct(t types.Type) (*types.Struct, bool) {
	st, ok := t.Underlying().(*types.Struct)
	if !ok {
		return nil, false
	}
	if n, ok := t.(*types.Named); ok && n.Obj().Pkg() != nil && !isRepoPkg(n.Obj().Pkg()) {
		exported := false
		for i := 0; i < st.NumFields(); i++ {
			if st.Field(i).Exported() {
				exported = true
			}
		}
		if !exported {
			return st, false
		}
	}
	return st, true
}

// sortOf maps a Go type to the SMT sort of its scalar representation ("" for flattened structs/tuples).
func (g *Gen) sortOf(t types.Type) Sort {
	switch u := t.Underlying().(type) {
	case *types.Basic:
		switch {
		case u.Info()&types.IsBoolean != 0:
			return SBool
		case u.Info()&types.IsInteger != 0:
			return SInt
		case u.Info()&types.IsString != 0:
			return SStr
		case u.Info()&types.IsFloat != 0:
			return SF64
		case u.Kind() == types.UnsafePointer:
			return SRef
		case u.Kind() == types.UntypedNil:
			return SRef
		}
		return g.S.opaqueSort(typeName(t))
	case *types.Pointer, *types.Map, *types.Chan:
		return SRef
	case *types.Slice:
		return SSlice
	case *types.Interface:
		return SIface
	case *types.Signature:
		return SFn
	case *types.Struct:
		if _, flat := isFlatStruct(t); flat {
			return ""
		}
		return g.S.opaqueSort(typeName(t))
	case *types.Tuple:
		return ""
	case *types.Array:
		return g.S.opaqueSort(typeName(t))
	}
	return g.S.opaqueSort(typeName(t))
}

func (g *Gen) zero(t types.Type) Val {
	so := g.sortOf(t)
	v := Val{S: so, Ty: t}
	switch so {
	case SInt:
		v.T = "0"
	case SBool:
		v.T = "false"
	case SRef:
		v.T = "null"
	case SStr:
		v.T = "str.empty"
	case SSlice:
		v.T = "slice.nil"
	case SIface:
		v.T = "iface.nil"
	case SFn:
		v.T = "fn.nil"
	case SF64:
		v.T = "f.zero"
	case "":
		if st, ok := t.Underlying().(*types.Struct); ok {
			for i := 0; i < st.NumFields(); i++ {
				v.Flds = append(v.Flds, g.zero(st.Field(i).Type()))
			}
		} else if tu, ok := t.(*types.Tuple); ok {
			for i := 0; i < tu.Len(); i++ {
				v.Flds = append(v.Flds, g.zero(tu.At(i).Type()))
			}
		}
	default:
		v.T = zeroOpaque(so)
	}
	return v
}

// intRange returns the inclusive range of an integer type (as SMT numerals).
func intRange(t types.Type) (string, string, bool) {
	b, ok := t.Underlying().(*types.Basic)
	if !ok || b.Info()&types.IsInteger == 0 {
		return "", "", false
	}
	switch b.Kind() {
	case types.Int, types.Int64, types.UntypedInt, types.UntypedRune:
		return minI64, maxI64, true
	case types.Int32:
		return "(- 2147483648)", "2147483647", true
	case types.Int16:
		return "(- 32768)", "32767", true
	case types.Int8:
		return "(- 128)", "127", true
	case types.Uint8:
		return "0", "255", true
	case types.Uint16:
		return "0", "65535", true
	case types.Uint32:
		return "0", "4294967295", true
	case types.Uint, types.Uint64, types.Uintptr:
		return "0", "18446744073709551615", true
	}
	return minI64, maxI64, true
}

func intBits(t types.Type) (bits int, signed bool) {
	b, ok := t.Underlying().(*types.Basic)
	if !ok {
		return 64, true
	}
	switch b.Kind() {
	case types.Int32:
		return 32, true
	case types.Int16:
		return 16, true
	case types.Int8:
		return 8, true
	case types.Uint8:
		return 8, false
	case types.Uint16:
		return 16, false
	case types.Uint32:
		return 32, false
	case types.Uint, types.Uint64, types.Uintptr:
		return 64, false
	}
	return 64, true
}

func pow2(bits int) string {
	switch bits {
	case 8:
		return "256"
	case 16:
		return "65536"
	case 32:
		return "4294967296"
	}
	return two64
}

// wrapTo wraps the mathematical integer term x into type t (Go conversion / overflow semantics).
// exact for |x| < 2^64-ish single wrap on 64 bit signed when single=true; otherwise uses mod.
func wrapTo(x string, t types.Type, single bool) string {
	bits, signed := intBits(t)
	if bits == 64 && signed && single {
		return sx("wrap64", x)
	}
	m := pow2(bits)
	if !signed {
		return sx("mod", x, m)
	}
	half := map[int]string{8: "128", 16: "32768", 32: "2147483648", 64: "9223372036854775808"}[bits]
	return sx("-", sx("mod", sx("+", x, half), m), half)
}

// typeAssume returns the well-typedness assumption of a scalar value of Go type t.
func (g *Gen) typeAssume(v Val) string {
	if v.Ty == nil {
		return "true"
	}
	switch v.S {
	case SInt:
		lo, hi, ok := intRange(v.Ty)
		if ok {
			return and(sx("<=", lo, v.T), sx("<=", v.T, hi))
		}
	case SSlice:
		return sx("wfslice", v.T)
	case SStr:
		return sx("<=", sx("slen", v.T), maxLen)
	case "":
		var cs []string
		for _, f := range v.Flds {
			cs = append(cs, g.typeAssume(f))
		}
		return and(cs...)
	}
	return "true"
}

// structFieldNames lists the fields of a struct type.
func structOf(t types.Type) *types.Struct {
	if p, ok := t.Underlying().(*types.Pointer); ok {
		t = p.Elem()
	}
	st, _ := t.Underlying().(*types.Struct)
	return st
}

func derefType(t types.Type) types.Type {
	if p, ok := t.Underlying().(*types.Pointer); ok {
		return p.Elem()
	}
	return t
}

// compF is the heap component of field f of struct type T (object-ref indexed).
func compF(T types.Type, f string) string { return "F|" + typeName(T) + "|" + f }

// compE is the element heap for a scalar element sort.
func compE(so Sort) string { return "E|" + strings.Trim(string(so), "|") }

// compC is the cell heap for a scalar sort.
func compC(so Sort) string { return "C|" + strings.Trim(string(so), "|") }

func compMD(k, v Sort) string { return "MD|" + strings.Trim(string(k), "|") + "|" + strings.Trim(string(v), "|") }
func compMV(k, v Sort) string { return "MV|" + strings.Trim(string(k), "|") + "|" + strings.Trim(string(v), "|") }

func arrSort(idx, elem string) string { return fmt.Sprintf("(Array %s %s)", idx, elem) }
