package engine

import (
	"bufio"
	"encoding/json"
	"flag"
	"fmt"
	"os"
	"os/exec"
	"path/filepath"
	"runtime"
	"sort"
	"strconv"
	"strings"
	"sync"
	"time"

	"golang.org/x/tools/go/ssa"
)

// UnitRule selects units (functions) and obligation kinds for a property.
type UnitRule struct {
	Prop  string
	Tier  string // both | thorough
	Glob  string
	Kinds map[string]bool // safety contract
}

var safetyKinds = map[string]bool{"nil": true, "bounds": true, "alloc": true, "div": true, "assert-type": true, "nil-map": true, "panic": true}

func verifHome() string {
	if h := os.Getenv("VERIF_HOME"); h != "" {
		return h
	}
	return "/verif"
}

// outHome is where evidence and replays are written (the self-test redirects it away from /verif).
func outHome() string {
	if h := os.Getenv("VERIF_OUT"); h != "" {
		return h
	}
	return verifHome()
}

func loadRules() ([]UnitRule, error) {
	f, err := os.Open(filepath.Join(verifHome(), "contracts", "properties.map"))
	if err != nil {
		return nil, err
	}
	defer f.Close()
	var rules []UnitRule
	sc := bufio.NewScanner(f)
	for sc.Scan() {
		ln := strings.TrimSpace(sc.Text())
		if ln == "" || strings.HasPrefix(ln, "#") {
			continue
		}
		fs := strings.Fields(ln)
		if len(fs) < 3 {
			return nil, fmt.Errorf("properties.map: bad line %q", ln)
		}
		r := UnitRule{Prop: fs[0], Tier: "both", Glob: fs[1], Kinds: map[string]bool{}}
		for _, k := range fs[2:] {
			if k == "thorough" {
				r.Tier = "thorough"
				continue
			}
			r.Kinds[k] = true
		}
		rules = append(rules, r)
	}
	return rules, sc.Err()
}

func globMatch(pat, s string) bool {
	// '*' matches any run of characters
	parts := strings.Split(pat, "*")
	if len(parts) == 1 {
		return pat == s
	}
	if !strings.HasPrefix(s, parts[0]) {
		return false
	}
	s = s[len(parts[0]):]
	for i := 1; i < len(parts)-1; i++ {
		j := strings.Index(s, parts[i])
		if j < 0 {
			return false
		}
		s = s[j+len(parts[i]):]
	}
	return strings.HasSuffix(s, parts[len(parts)-1])
}

type Finding struct {
	Kind, Prop, Obligation, Text, Commit string
}

func loadFindings() ([]Finding, error) {
	b, err := os.ReadFile(filepath.Join(verifHome(), "known_findings.txt"))
	if err != nil {
		if os.IsNotExist(err) {
			return nil, nil
		}
		return nil, err
	}
	var out []Finding
	for _, ln := range strings.Split(string(b), "\n") {
		ln = strings.TrimSpace(ln)
		if ln == "" || strings.HasPrefix(ln, "#") {
			continue
		}
		var f Finding
		switch {
		case strings.HasPrefix(ln, "finding:"):
			f.Kind = "finding"
			ln = strings.TrimSpace(ln[len("finding:"):])
		case strings.HasPrefix(ln, "fixed:"):
			f.Kind = "fixed"
			ln = strings.TrimSpace(ln[len("fixed:"):])
		default:
			continue
		}
		// property=<id> [commit] obligation=<name...> :: text
		if i := strings.Index(ln, " :: "); i >= 0 {
			f.Text = strings.TrimSpace(ln[i+4:])
			ln = ln[:i]
		}
		if i := strings.Index(ln, "obligation="); i >= 0 {
			f.Obligation = strings.TrimSpace(ln[i+len("obligation="):])
			ln = ln[:i]
		}
		for _, w := range strings.Fields(ln) {
			if strings.HasPrefix(w, "property=") {
				f.Prop = w[len("property="):]
			} else {
				f.Commit = w
			}
		}
		out = append(out, f)
	}
	return out, nil
}

type unitResult struct {
	g    *Gen
	obls []*Obligation
}

// oblProps decides whether obligation o (of unit fnName) belongs to property prop under rule r.
func oblInRule(o *Obligation, r UnitRule, prop string) bool {
	if safetyKinds[o.Kind] {
		return r.Kinds["safety"]
	}
	if !r.Kinds["contract"] {
		return false
	}
	tags := clauseTags(o.Clause)
	if len(tags) == 0 {
		return true
	}
	for _, t := range tags {
		if t == prop {
			return true
		}
	}
	return false
}

// clauseTags extracts {C01,C02} property tags from the start of a clause text.
func clauseTags(c string) []string {
	c = strings.TrimSpace(c)
	if !strings.HasPrefix(c, "{") {
		return nil
	}
	i := strings.Index(c, "}")
	if i < 0 {
		return nil
	}
	var out []string
	for _, t := range strings.Split(c[1:i], ",") {
		if t = strings.TrimSpace(t); t != "" {
			out = append(out, t)
		}
	}
	return out
}

type Evidence struct {
	PropertyID  string         `json:"property_id"`
	Tier        string         `json:"tier"`
	Seed        int            `json:"seed"`
	Level       string         `json:"level"`
	Coverage    map[string]any `json:"coverage"`
	Assumptions []string       `json:"assumptions"`
	WallS       float64        `json:"wall_s"`
	Violations  int            `json:"violations"`
}

func CheckMain(args []string) int {
	fs := flag.NewFlagSet("check", flag.ExitOnError)
	keep := fs.Bool("keep", os.Getenv("VERIF_KEEP") == "1", "keep SMT files")
	fs.Parse(args)
	if fs.NArg() < 1 {
		fmt.Fprintln(os.Stderr, "usage: govc check <Cxx> [quick|thorough]")
		return 2
	}
	prop := fs.Arg(0)
	tier := "quick"
	if fs.NArg() > 1 {
		tier = fs.Arg(1)
	}
	if t := os.Getenv("VERIF_TIER"); t != "" && fs.NArg() < 2 {
		tier = t
	}
	seed := 0
	if s := os.Getenv("VERIF_SEED"); s != "" {
		seed, _ = strconv.Atoi(s)
	}
	t0 := time.Now()
	repo := os.Getenv("VERIF_REPO")
	if repo == "" {
		repo = "/repo"
	}
	statusBefore := gitStatus(repo)
	p, err := Load(repo)
	if err != nil {
		fmt.Println("ENGINE-ERROR load:", err)
		return 2
	}
	rules, err := loadRules()
	if err != nil {
		fmt.Println("ENGINE-ERROR rules:", err)
		return 2
	}
	findings, err := loadFindings()
	if err != nil {
		fmt.Println("ENGINE-ERROR findings:", err)
		return 2
	}
	// select units
	type sel struct {
		fn    *ssa.Function
		rules []UnitRule
	}
	units := map[string]*sel{}
	var unbound []string
	for _, r := range rules {
		if r.Prop != prop || (r.Tier == "thorough" && tier != "thorough") {
			continue
		}
		matched := false
		for _, k := range p.SortedFuncKeys() {
			fn := p.Funcs[k]
			name := k
			if n, ok := p.ExecName[fn]; ok {
				name = "redis.executor:" + n
			}
			if globMatch(r.Glob, name) || globMatch(r.Glob, k) {
				matched = true
				u := units[k]
				if u == nil {
					u = &sel{fn: fn}
					units[k] = u
				}
				u.rules = append(u.rules, r)
			}
		}
		if !matched {
			// a function this property's proof is anchored in no longer exists under that name (removed, renamed, inlined): the
			// contract no longer binds. Reported as a violation of its own (there is no input to show), after the remaining units
			// were checked - the code that took over the function's work usually fails an obligation of its own as well.
			unbound = append(unbound, fmt.Sprintf("%s#unbound: the unit %s of properties.map matches no function (removed, renamed or inlined): its contract no longer binds", r.Glob, r.Glob))
		}
	}
	if len(units) == 0 {
		fmt.Printf("ENGINE-ERROR: property %s has no units\n", prop)
		return 2
	}
	// closure: a function under contract that a unit calls (also through a closure) is assumed, at that call, to keep its
	// postconditions. Those of its clauses that this property can rely on - the untagged helper facts and the ones tagged with this
	// property - must then be checked by this property's own command, or a change of the callee that breaks the property would
	// only be noticed by some other property's check. Such callees become units (contract obligations only), transitively.
	auto := 0
	for changed := true; changed; {
		changed = false
		var cur []*sel
		for _, u := range units {
			cur = append(cur, u)
		}
		for _, u := range cur {
			for _, b := range u.fn.Blocks {
				for _, ins := range b.Instrs {
					var callee *ssa.Function
					switch x := ins.(type) {
					case ssa.CallInstruction:
						callee = x.Common().StaticCallee()
					case *ssa.MakeClosure:
						callee, _ = x.Fn.(*ssa.Function)
					}
					if callee == nil {
						continue
					}
					k := FuncKey(callee)
					if _, have := units[k]; have {
						continue
					}
					if _, inRepo := p.Funcs[k]; !inRepo {
						continue
					}
					fc := p.contractFor(callee)
					if fc == nil {
						continue
					}
					relevant := false
					for _, c := range fc.Ensures {
						tags := clauseTags(c.Text)
						if len(tags) == 0 {
							relevant = true
						}
						for _, t := range tags {
							if t == prop {
								relevant = true
							}
						}
					}
					if !relevant {
						continue
					}
					units[k] = &sel{fn: p.Funcs[k], rules: []UnitRule{{Prop: prop, Tier: "both", Glob: k, Kinds: map[string]bool{"contract": true}}}}
					auto++
					changed = true
				}
			}
		}
	}
	if auto > 0 {
		fmt.Printf("note: %d contracted callees of the listed units were added as units (their helper clauses are part of this property's proof)\n", auto)
	}
	outDir := filepath.Join(os.TempDir(), fmt.Sprintf("govc-%s-%d", prop, os.Getpid()))
	if !*keep {
		defer os.RemoveAll(outDir)
	}
	defer CleanupReplay()
	opts := SolveOpts{QuickMs: 4000, RaceMs: 12000, OutDir: outDir, Seed: seed}
	if tier == "thorough" {
		opts.QuickMs, opts.RaceMs = 10000, 60000
		opts.Stability = true
	}
	// solver time limits are CPU-bound budgets: when the machine is already busier than it has cores (other checks running
	// beside this one) they are stretched in proportion, so that a pass does not depend on having the machine to itself
	if f := loadFactor(); f > 1 {
		opts.QuickMs, opts.RaceMs = int(float64(opts.QuickMs)*f), int(float64(opts.RaceMs)*f)
		fmt.Printf("note: load average above the core count, solver time limits x%.1f\n", f)
	}
	stats := &SolverStats{}
	var keys []string
	for k := range units {
		keys = append(keys, k)
	}
	sort.Strings(keys)
	results := make([]*unitResult, len(keys))
	var wg sync.WaitGroup
	sem := make(chan struct{}, 6)
	var mu sync.Mutex
	for i, k := range keys {
		wg.Add(1)
		sem <- struct{}{}
		go func(i int, k string) {
			defer wg.Done()
			defer func() { <-sem }()
			u := units[k]
			mode := GenMode{}
			for _, r := range u.rules {
				if r.Kinds["safety"] {
					mode.Sweep = true
				}
				if r.Kinds["contract"] {
					mode.Contracts = true
				}
			}
			// generation shares Program caches (locked); solving runs in parallel
			g := HoudiniLocked(p, u.fn, mode, opts, stats, &mu)
			res := &unitResult{g: g}
			for _, o := range g.Obls {
				for _, r := range u.rules {
					if oblInRule(o, r, prop) {
						res.obls = append(res.obls, o)
						break
					}
				}
			}
			results[i] = res
		}(i, k)
	}
	wg.Wait()
	// report
	var all []*Obligation
	var unsupported, vacuous []string
	assumed := map[string]bool{}
	funcs := 0
	contracted := 0
	for _, r := range results {
		funcs++
		if r.g.FC != nil {
			contracted++
		}
		all = append(all, r.obls...)
		for _, u := range r.g.Unsupported {
			unsupported = append(unsupported, r.g.FnName()+": "+u)
		}
		vacuous = append(vacuous, r.g.Vacuous...)
		for a := range r.g.Assumed {
			assumed[a] = true
		}
	}
	for _, v := range vacuous {
		fmt.Println("ENGINE-ERROR vacuity:", v)
	}
	for _, u := range unsupported {
		if strings.Contains(u, "UNBOUND-CONTRACT") {
			unbound = append(unbound, strings.TrimSpace(strings.Replace(u, "UNBOUND-CONTRACT", "", 1))+"#unbound: the contract no longer binds")
		}
	}
	if len(all) == 0 && len(unbound) == 0 {
		fmt.Printf("ENGINE-ERROR: property %s generated zero obligations\n", prop)
		return 2
	}
	known := map[string]Finding{}
	for _, f := range findings {
		if f.Kind == "finding" && f.Prop == prop {
			known[f.Obligation] = f
		}
	}
	exit := 0
	proved, knownHit, viol := 0, 0, 0
	byBack := map[string]int{}
	var samples []any
	var fragile []string
	for _, o := range all {
		switch {
		case o.Status == "proved":
			proved++
			byBack[o.Solver]++
			if o.TimeS > 5 {
				fragile = append(fragile, fmt.Sprintf("%s (%.1fs)", o.Name, o.TimeS))
			}
			if len(samples) < 6 && !safetyKinds[o.Kind] || len(samples) < 3 {
				samples = append(samples, map[string]any{"obligation": o.Name, "kind": o.Kind, "clause": o.Clause, "solver": o.Solver, "time_s": round3(o.TimeS), "result": "unsat"})
			}
		default:
			if f, ok := known[o.Name]; ok {
				knownHit++
				fmt.Printf("KNOWN-FINDING: property=%s %s :: %s\n", prop, o.Name, f.Text)
				delete(known, o.Name)
				continue
			}
			viol++
			exit = 1
			path := writeReplay(p, prop, o, opts)
			suffix := ""
			if !o.Reproduced {
				suffix = " no-failing-input-found"
			}
			fmt.Printf("VIOLATION property=%s replay=%s obligation=%q status=%s%s\n", prop, path, o.Name, o.Status, suffix)
		}
	}
	for _, u := range unbound {
		viol++
		exit = 1
		name := u
		if i := strings.Index(u, ":"); i > 0 {
			name = u[:i]
		}
		dir := filepath.Join(outHome(), "replays", prop)
		os.MkdirAll(dir, 0o755)
		path := filepath.Join(dir, fmt.Sprintf("unbound-%08x.json", fnv32(u)))
		b, _ := json.MarshalIndent(map[string]any{"property": prop, "obligation": name, "kind": "unbound-contract", "status": "undecided",
			"solver_output": u, "replay": map[string]any{"attempted": false, "result": "no-failing-input-found", "reason": "a contract that binds to no function has no input to replay"}}, "", " ")
		os.WriteFile(path, b, 0o644)
		fmt.Printf("VIOLATION property=%s replay=%s obligation=%q status=undecided no-failing-input-found\n", prop, path, name)
	}
	for name := range known {
		// a listed finding whose obligation no longer exists or is now proved: say so (does not fail the check)
		fmt.Printf("NOTE: listed finding %q did not fail in this run (fixed or renamed?)\n", name)
	}
	if len(vacuous) > 0 {
		exit = 2
	}
	if len(stats.Disagree) > 0 {
		for _, d := range stats.Disagree {
			fmt.Printf("ENGINE-ERROR: solvers disagree on %s\n", d)
		}
		exit = 2
	}
	if after := gitStatus(repo); after != statusBefore {
		fmt.Println("ENGINE-ERROR: the check modified /repo")
		exit = 2
	}
	// evidence
	var as []string
	for a := range assumed {
		as = append(as, a)
	}
	sort.Strings(as)
	as = append(as, baseAssumptions(prop)...)
	var fnNames []string
	for _, r := range results {
		fnNames = append(fnNames, r.g.FnName())
	}
	ev := Evidence{PropertyID: prop, Tier: tier, Seed: seed, Level: "proof", Assumptions: as, WallS: round3(time.Since(t0).Seconds()), Violations: viol,
		Coverage: map[string]any{
			"obligations":              len(all) - knownHit,
			"discharged":               proved,
			"known_findings_reported":  knownHit,
			"checker_cmd":              fmt.Sprintf("cd /verif && ./check %s %s", prop, tier),
			"trusted_base":             trustedBase(),
			"by_backend":               byBack,
			"solver_time_s":            round3(stats.TimeS),
			"solver_queries":           stats.Queries,
			"functions_under_contract": contracted,
			"functions_in_units":       funcs,
			"functions":                fnNames,
			"samples":                  samples,
			"fragile":                  fragile,
			"cross_solver_answers":     stats.Cross,
			"seed_fragile":             stats.SeedFragile,
			"outside_subset":           unsupported,
			"vacuity_guards":           fmt.Sprintf("%d units: assumptions satisfiable and a return reachable (unsat would be ENGINE-ERROR)", funcs),
			"not_decided":              notDecided(prop),
			"integer_semantics":        "Go machine integers modelled exactly: SMT Int with explicit wrap-around (wrap64 / mod 2^k) at every arithmetic operation and conversion",
		}}
	os.MkdirAll(filepath.Join(outHome(), "evidence"), 0o755)
	eb, _ := json.MarshalIndent(ev, "", " ")
	os.WriteFile(filepath.Join(outHome(), "evidence", prop+".json"), eb, 0o644)
	fmt.Printf("%s %s: %d obligations, %d discharged, %d known findings, %d violations, %d units, %.1fs\n", prop, tier, len(all), proved, knownHit, viol, funcs, time.Since(t0).Seconds())
	return exit
}

func HoudiniLocked(p *Program, fn *ssa.Function, mode GenMode, opts SolveOpts, stats *SolverStats, mu *sync.Mutex) *Gen {
	dropped := map[string]bool{}
	var g *Gen
	for round := 0; round < 6; round++ {
		mu.Lock()
		tg := time.Now()
		g = GenerateFixpoint(p, fn, mode, dropped)
		mu.Unlock()
		genT := time.Since(tg)
		ts := time.Now()
		SolveGen(g, opts, stats)
		if os.Getenv("VERIF_TIMING") != "" {
			fmt.Fprintf(os.Stderr, "timing %s round %d: generate %.1fs solve %.1fs (%d obligations)\n", g.FnName(), round, genT.Seconds(), time.Since(ts).Seconds(), len(g.Obls))
		}
		again := false
		for _, o := range g.Obls {
			if (o.Kind == "auto-init" || o.Kind == "auto-pres") && o.Status != "proved" {
				dropped[g.FnName()+"/"+o.Anchor] = true
				again = true
			}
		}
		if !again {
			break
		}
	}
	var keepO []*Obligation
	for _, o := range g.Obls {
		if o.Kind != "auto-init" && o.Kind != "auto-pres" {
			keepO = append(keepO, o)
		} else {
			g.AutoInv = append(g.AutoInv, o.Anchor)
		}
	}
	g.Obls = keepO
	return g
}

func round3(f float64) float64 { return float64(int(f*1000)) / 1000 }

func gitStatus(repo string) string {
	out, _ := exec.Command("git", "-C", repo, "status", "--porcelain").Output()
	return string(out)
}

func trustedBase() []string {
	return []string{
		"A1 go/packages+go/types+go/ssa (x/tools v0.29.0) lower /repo faithfully; the SSA->SMT translation of /verif/engine",
		"A2 SMT solvers z3 5.1.0, z3 4.8.12, cvc5 1.0.3: an unsat answer is sound",
		"A3 amd64 (int is 64 bit); every slice/string in memory is at most 2^48 elements long",
		"contracts of external and interface functions in /verif/contracts/*.contracts and //@ interface blocks (assumed, never proved)",
	}
}

func writeReplay(p *Program, prop string, o *Obligation, opts SolveOpts) string {
	dir := filepath.Join(outHome(), "replays", prop)
	os.MkdirAll(dir, 0o755)
	name := strings.NewReplacer("/", "_", " ", "_", "(", "", ")", "", "*", "P", ":", "_", "#", "-", "\"", "", "'", "", "[", "", "]", "", "|", "", "&", "", "<", "lt", ">", "gt", "=", "eq", ",", "", "!", "not", "~", "-", "$", "_").Replace(o.Name)
	if len(name) > 100 {
		name = name[:100]
	}
	name += fmt.Sprintf("-%08x", fnv32(o.Name))
	path := filepath.Join(dir, name+".json")
	rep := TryReplay(p, o, opts)
	doc := map[string]any{
		"property":      prop,
		"obligation":    o.Name,
		"kind":          o.Kind,
		"function":      o.Fn,
		"clause":        o.Clause,
		"status":        o.Status,
		"solver_output": o.Output,
		"model":         o.Model,
		"position":      p.Fset.Position(o.Pos).String(),
		"replay":        rep,
	}
	b, _ := json.MarshalIndent(doc, "", " ")
	os.WriteFile(path, b, 0o644)
	return path
}

func fnv32(s string) uint32 {
	h := uint32(2166136261)
	for i := 0; i < len(s); i++ {
		h ^= uint32(s[i])
		h *= 16777619
	}
	return h
}

// loadFactor is max(1, min(4, 1-minute load average / number of CPUs)).
func loadFactor() float64 {
	b, err := os.ReadFile("/proc/loadavg")
	if err != nil {
		return 1
	}
	fs := strings.Fields(string(b))
	if len(fs) == 0 {
		return 1
	}
	l, err := strconv.ParseFloat(fs[0], 64)
	if err != nil {
		return 1
	}
	f := l / float64(runtime.NumCPU())
	if f < 1 {
		return 1
	}
	if f > 4 {
		return 4
	}
	return f
}
