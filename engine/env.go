package engine

import (
	"fmt"
	"go/constant"
	"go/types"
	"strings"

	"golang.org/x/tools/go/ssa"
)

// Env evaluates contract expressions to SMT terms in a given program state.
type Env struct {
	g        *Gen
	vars     map[string]Val
	heap     Heap
	old      Heap
	block    *ssa.BasicBlock
	atEnd    bool
	phiSubst map[*ssa.Phi]Val
	pkg      *types.Package
	noLocals bool
	entry    Heap                // heap on entry of the enclosing loop (atentry)
	entryPhi map[*ssa.Phi]Val    // loop-carried variables on entry of the enclosing loop
	qdepth   int                 // quantifier nesting depth (bound names are made unique per depth)
	inOld    bool                // inside old(...): parameters denote their entry values
}

func (g *Gen) newEnv(h, old Heap, b *ssa.BasicBlock) *Env {
	e := &Env{g: g, vars: map[string]Val{}, heap: h, old: old, block: b}
	for k, v := range g.params {
		e.vars[k] = v
	}
	if g.Fn.Pkg != nil {
		e.pkg = g.Fn.Pkg.Pkg
	}
	return e
}

func (e *Env) sub() *Env {
	n := *e
	n.vars = map[string]Val{}
	for k, v := range e.vars {
		n.vars[k] = v
	}
	return &n
}

var nilVal = Val{T: "nil", S: "nil"}

func (e *Env) evalBool(x Expr) (string, error) {
	v, err := e.eval(x)
	if err != nil {
		return "", err
	}
	if v.S != SBool {
		return "", fmt.Errorf("boolean expected in %s (got %s)", x, v.S)
	}
	return v.T, nil
}

func (e *Env) eval(x Expr) (Val, error) {
	g := e.g
	switch x := x.(type) {
	case *EInt:
		return Val{T: numStr(x.V), S: SInt, Ty: types.Typ[types.Int]}, nil
	case *EBool:
		return Val{T: fmt.Sprint(x.V), S: SBool, Ty: types.Typ[types.Bool]}, nil
	case *EStr:
		return Val{T: g.S.strLit(x.V), S: SStr, Ty: types.Typ[types.String]}, nil
	case *ENil:
		return nilVal, nil
	case *EIdent:
		return e.ident(x.Name)
	case *EOld:
		o := e.sub()
		o.heap = e.old
		o.inOld = true
		return o.eval(x.X)
	case *EUnary:
		if x.Op == "&" {
			if sl, ok := x.X.(*ESel); ok {
				// address of a struct-typed field of an object: the derived reference used for that sub-object
				base, err := e.eval(sl.X)
				if err != nil {
					return Val{}, err
				}
				if base.Ty == nil {
					return Val{}, fmt.Errorf("&%s: untyped base", x.X)
				}
				obj, path, _ := types.LookupFieldOrMethod(base.Ty, true, e.pkgOrNil(base.Ty), sl.Name)
				fv, ok := obj.(*types.Var)
				if !ok || !fv.IsField() {
					return Val{}, fmt.Errorf("no field %s", sl.Name)
				}
				cur := base
				for k, idx := range path {
					T := derefType(cur.Ty)
					if k == len(path)-1 {
						return Val{T: g.subRef(T, structOf(T).Field(idx).Name(), cur.T), S: SRef, Ty: types.NewPointer(fv.Type())}, nil
					}
					cur = g.loadField(e.heap, T, cur.T, idx)
				}
			}
			id, ok := x.X.(*EIdent)
			if !ok {
				return Val{}, fmt.Errorf("& needs a local variable name or a field")
			}
			nv, ok := g.lookupLocal(id.Name, e.block, e.atEnd)
			if !ok || !nv.isAddr {
				return Val{}, fmt.Errorf("&%s: not an addressable local", id.Name)
			}
			return g.val(nv.v), nil
		}
		v, err := e.eval(x.X)
		if err != nil {
			return Val{}, err
		}
		if x.Op == "!" {
			if v.S != SBool {
				return Val{}, fmt.Errorf("! on non-bool")
			}
			return Val{T: not(v.T), S: SBool}, nil
		}
		if v.S == SF64 {
			return Val{T: sx("f.neg", v.T), S: SF64, Ty: v.Ty}, nil
		}
		return Val{T: sx("-", v.T), S: SInt, Ty: v.Ty}, nil
	case *EIte:
		c, err := e.evalBool(x.C)
		if err != nil {
			return Val{}, err
		}
		a, err := e.eval(x.T)
		if err != nil {
			return Val{}, err
		}
		b, err := e.eval(x.E)
		if err != nil {
			return Val{}, err
		}
		a, b = e.fixNil(a, b)
		return Val{T: ite(c, a.T, b.T), S: a.S, Ty: a.Ty}, nil
	case *EBinary:
		return e.binary(x)
	case *EQuant:
		n := e.sub()
		n.qdepth = e.qdepth + 1
		var decl []string
		for _, v := range x.Vars {
			so := g.specSort(v.Type)
			name := qsym("q!" + v.Name)
			if e.qdepth > 0 {
				name = qsym(fmt.Sprintf("q!%s!%d", v.Name, e.qdepth))
			}
			decl = append(decl, fmt.Sprintf("(%s %s)", name, so))
			var ty types.Type
			switch v.Type {
			case "int":
				ty = types.Typ[types.Int]
			case "string":
				ty = types.Typ[types.String]
			case "bool":
				ty = types.Typ[types.Bool]
			}
			n.vars[v.Name] = Val{T: name, S: so, Ty: ty}
		}
		b, err := n.evalBool(x.Body)
		if err != nil {
			return Val{}, err
		}
		q := "exists"
		if x.Forall {
			q = "forall"
		}
		return Val{T: fmt.Sprintf("(%s (%s) %s)", q, strings.Join(decl, " "), b), S: SBool}, nil
	case *ESel:
		return e.selector(x)
	case *EIndex:
		return e.index(x)
	case *ESlice:
		v, err := e.eval(x.X)
		if err != nil {
			return Val{}, err
		}
		lo, hi := "0", ""
		if x.Lo != nil {
			l, err := e.eval(x.Lo)
			if err != nil {
				return Val{}, err
			}
			lo = l.T
		}
		if x.Hi != nil {
			h, err := e.eval(x.Hi)
			if err != nil {
				return Val{}, err
			}
			hi = h.T
		}
		switch v.S {
		case SStr:
			if hi == "" {
				hi = sx("slen", v.T)
			}
			return Val{T: sx("str.sub", v.T, lo, hi), S: SStr, Ty: v.Ty}, nil
		case SSlice:
			if hi == "" {
				hi = sx("s-len", v.T)
			}
			return Val{T: sx("mk-slice", sx("s-arr", v.T), sx("+", sx("s-off", v.T), lo), sx("-", hi, lo), sx("-", sx("s-cap", v.T), lo)), S: SSlice, Ty: v.Ty}, nil
		}
		return Val{}, fmt.Errorf("slice expression on %s", v.S)
	case *ECall:
		return e.call(x)
	}
	return Val{}, fmt.Errorf("cannot evaluate %T", x)
}

func (e *Env) fixNil(a, b Val) (Val, Val) {
	if a.S == "nil" && b.S != "nil" {
		a = e.nilOf(b)
	}
	if b.S == "nil" && a.S != "nil" {
		b = e.nilOf(a)
	}
	return a, b
}

func (e *Env) nilOf(like Val) Val {
	v := Val{S: like.S, Ty: like.Ty}
	v.T = e.g.zeroOfSort(like.S)
	return v
}

func (e *Env) ident(name string) (Val, error) {
	g := e.g
	if v, ok := e.vars[name]; ok {
		// in a loop invariant a parameter that the function reassigns denotes its current value (old(p) its entry value);
		// everywhere else (pre- and postconditions) a parameter name denotes the entry value
		if e.entry != nil && !e.inOld && !e.noLocals && e.block != nil {
			if _, isParam := g.params[name]; isParam {
				if nv, ok := g.lookupLocal(name, e.block, e.atEnd); ok {
					if _, stillParam := nv.v.(*ssa.Parameter); !stillParam {
						return e.localValue(nv), nil
					}
				}
			}
		}
		return v, nil
	}
	if !e.noLocals {
		if nv, ok := g.lookupLocal(name, e.block, e.atEnd); ok {
			return e.localValue(nv), nil
		}
	}
	if gv, ok := g.P.Contract.Ghosts[name]; ok {
		comp, ks, vs := g.ghostComp(gv)
		t := g.hget(e.heap, comp)
		if ks != "" {
			mv := Val{T: t, S: Sort(arrSort(string(ks), string(vs)))}
			if ps := strings.Split(gv.Type, ":"); len(ps) == 3 && strings.HasPrefix(ps[2], "*") {
				if ty, err := g.resolveType(ps[2]); err == nil {
					mv.Ty = ty // the Go type of the map's values (so that fields can be selected)
				}
			}
			return mv, nil
		}
		return Val{T: t, S: vs, Ty: g.ghostType(gv.Type)}, nil
	}
	if e.pkg != nil {
		if v, ok := e.pkgMember(e.pkg, name); ok {
			return v, nil
		}
	}
	return Val{}, fmt.Errorf("unknown name %q", name)
}

// ghostType is ghostGoType plus named pointer types ("*proto.Message", also as "array:*proto.Message").
func (g *Gen) ghostType(t string) types.Type {
	base := strings.TrimPrefix(t, "array:")
	if strings.HasPrefix(base, "*") {
		if ty, err := g.resolveType(base); err == nil {
			return ty
		}
	}
	return ghostGoType(t)
}

func ghostGoType(t string) types.Type {
	if strings.HasPrefix(t, "array:") {
		return ghostGoType(t[len("array:"):]) // the type of the array's values (kept through indexing)
	}
	switch t {
	case "[]string":
		return types.NewSlice(types.Typ[types.String])
	case "[]byte", "bytes":
		return types.NewSlice(types.Typ[types.Uint8])
	case "int":
		return types.Typ[types.Int]
	case "bool":
		return types.Typ[types.Bool]
	case "string":
		return types.Typ[types.String]
	}
	return nil
}

func (e *Env) localValue(nv namedVal) Val {
	g := e.g
	if phi, ok := nv.v.(*ssa.Phi); ok && e.phiSubst != nil {
		if v, ok := e.phiSubst[phi]; ok {
			return v
		}
	}
	v := g.val(nv.v)
	if nv.isAddr {
		T := derefType(nv.v.Type())
		lv := g.loadAt(e.heap, v, T)
		return lv
	}
	return v
}

// pkgMember resolves a package-level constant or variable.
func (e *Env) pkgMember(pkg *types.Package, name string) (Val, bool) {
	g := e.g
	obj := pkg.Scope().Lookup(name)
	switch o := obj.(type) {
	case *types.Const:
		t := o.Type()
		so := g.sortOf(t)
		switch so {
		case SInt:
			return Val{T: numStr(constant.ToInt(o.Val()).ExactString()), S: SInt, Ty: t}, true
		case SStr:
			return Val{T: g.S.strLit(constant.StringVal(o.Val())), S: SStr, Ty: t}, true
		case SBool:
			return Val{T: fmt.Sprint(constant.BoolVal(o.Val())), S: SBool, Ty: t}, true
		}
	case *types.Var:
		sp := g.P.SSA.Package(pkg)
		if sp == nil {
			return Val{}, false
		}
		if gl, ok := sp.Members[name].(*ssa.Global); ok {
			if v, ok := g.globalValue(gl, e.heap); ok {
				return v, true
			}
		}
	}
	return Val{}, false
}

func (g *Gen) pkgByName(name string) *types.Package {
	for _, p := range g.P.SSA.AllPackages() {
		if p.Pkg.Name() == name {
			// prefer repo packages and std over vendored duplicates
			return p.Pkg
		}
	}
	return nil
}

func (e *Env) selector(x *ESel) (Val, error) {
	g := e.g
	if id, ok := x.X.(*EIdent); ok {
		if _, isVar := e.vars[id.Name]; !isVar {
			if _, isLocal := g.lookupLocal(id.Name, e.block, e.atEnd); !isLocal || e.noLocals {
				if _, isGhost := g.P.Contract.Ghosts[id.Name]; !isGhost {
					if p := g.pkgByName(id.Name); p != nil {
						if v, ok := e.pkgMember(p, x.Name); ok {
							return v, nil
						}
						return Val{}, fmt.Errorf("unknown member %s.%s", id.Name, x.Name)
					}
				}
			}
		}
	}
	v, err := e.eval(x.X)
	if err != nil {
		return Val{}, err
	}
	if v.Ty == nil {
		return Val{}, fmt.Errorf("selector .%s on untyped value %s", x.Name, x.X)
	}
	return e.field(v, x.Name)
}

// field selects a (possibly promoted) field of a struct value or pointer-to-struct.
func (e *Env) field(v Val, name string) (Val, error) {
	g := e.g
	obj, path, _ := types.LookupFieldOrMethod(v.Ty, true, e.pkgOrNil(v.Ty), name)
	fv, ok := obj.(*types.Var)
	if !ok || !fv.IsField() {
		return Val{}, fmt.Errorf("no field %s in %s", name, v.Ty)
	}
	cur := v
	for _, idx := range path {
		T := cur.Ty
		if _, isPtr := T.Underlying().(*types.Pointer); isPtr {
			base := cur.T
			cur = g.loadField(e.heap, derefType(T), cur.T, idx)
			// these facts are assumptions about what an UNKNOWN heap holds (entry state, havocked state): they may only be stated
			// for a plain read of a named heap version. A value the program itself built and stored (make([]T, n) put into a field)
			// must not be declared well-formed here - that would assume n >= 0 behind the back of the allocation check
			if cur.S != "" && !strings.Contains(cur.T, "|q!") && !strings.Contains(cur.T, "r!this") && isRawHeapLoad(cur.T) {
				g.S.assert(g.typeAssume(cur))
				// heap well-formedness: what a field of an allocated object refers to is allocated (or nil)
				al := g.hget(e.heap, g.allocComp())
				switch cur.S {
				case SRef:
					g.S.assert(imp(sel(al, base), or(eq(cur.T, "null"), sel(al, cur.T))))
				case SSlice:
					g.S.assert(imp(sel(al, base), or(eq(sx("s-arr", cur.T), "null"), sel(al, sx("s-arr", cur.T)))))
				}
			}
		} else {
			if idx >= len(cur.Flds) {
				return Val{}, fmt.Errorf("cannot select field of opaque %s", T)
			}
			cur = cur.Flds[idx]
		}
	}
	return cur, nil
}

func (e *Env) pkgOrNil(t types.Type) *types.Package {
	t = derefType(t)
	if n, ok := t.(*types.Named); ok {
		return n.Obj().Pkg()
	}
	return e.pkg
}

func (e *Env) index(x *EIndex) (Val, error) {
	g := e.g
	v, err := e.eval(x.X)
	if err != nil {
		return Val{}, err
	}
	i, err := e.eval(x.I)
	if err != nil {
		return Val{}, err
	}
	switch {
	case v.S == SSlice:
		var et types.Type
		if v.Ty != nil {
			if st, ok := v.Ty.Underlying().(*types.Slice); ok {
				et = st.Elem()
			}
		}
		if et == nil {
			et = types.Typ[types.Uint8]
		}
		if _, isStruct := et.Underlying().(*types.Struct); isStruct {
			r := g.elemRef(et, sx("s-arr", v.T), sx("+", sx("s-off", v.T), i.T))
			return g.loadStruct(e.heap, et, r), nil
		}
		so := g.sortOf(et)
		return Val{T: sel(sel(g.hget(e.heap, g.elemComp(so)), sx("s-arr", v.T)), sx("+", sx("s-off", v.T), i.T)), S: so, Ty: et}, nil
	case v.S == SStr:
		return Val{T: sx("sat", v.T, i.T), S: SInt, Ty: types.Typ[types.Uint8]}, nil
	case strings.HasPrefix(string(v.S), "(Array"):
		// ghost map / array
		vs := arrayValueSort(string(v.S))
		return Val{T: sel(v.T, i.T), S: Sort(vs), Ty: v.Ty}, nil
	case v.S == SRef && v.Ty != nil:
		if mt, ok := v.Ty.Underlying().(*types.Map); ok {
			ks, vs := g.sortOf(mt.Key()), g.sortOf(mt.Elem())
			md, mv := g.mapDomComp(ks, vs), g.mapValComp(ks, vs)
			dom := and(not(eq(v.T, "null")), sel(sel(g.hget(e.heap, md), v.T), i.T))
			return Val{T: ite(dom, sel(sel(g.hget(e.heap, mv), v.T), i.T), g.zero(mt.Elem()).T), S: vs, Ty: mt.Elem()}, nil
		}
	}
	return Val{}, fmt.Errorf("cannot index %s (sort %s)", x.X, v.S)
}

// arrayValueSort extracts V from "(Array K V)".
func arrayValueSort(s string) string {
	s = strings.TrimSuffix(strings.TrimPrefix(s, "(Array "), ")")
	// K may be parenthesised
	d := 0
	for i := 0; i < len(s); i++ {
		switch s[i] {
		case '(':
			d++
		case ')':
			d--
		case ' ':
			if d == 0 {
				return s[i+1:]
			}
		}
	}
	return s
}

func (e *Env) binary(x *EBinary) (Val, error) {
	switch x.Op {
	case "&&", "||", "==>", "<==>":
		a, err := e.evalBool(x.L)
		if err != nil {
			return Val{}, err
		}
		b, err := e.evalBool(x.R)
		if err != nil {
			return Val{}, err
		}
		switch x.Op {
		case "&&":
			return Val{T: and(a, b), S: SBool}, nil
		case "||":
			return Val{T: or(a, b), S: SBool}, nil
		case "==>":
			return Val{T: imp(a, b), S: SBool}, nil
		}
		return Val{T: eq(a, b), S: SBool}, nil
	}
	a, err := e.eval(x.L)
	if err != nil {
		return Val{}, err
	}
	b, err := e.eval(x.R)
	if err != nil {
		return Val{}, err
	}
	switch x.Op {
	case "==", "!=":
		t, err := e.equal(a, b)
		if err != nil {
			return Val{}, fmt.Errorf("%v in %s", err, x)
		}
		if x.Op == "!=" {
			t = not(t)
		}
		return Val{T: t, S: SBool}, nil
	case "<", "<=", ">", ">=":
		if a.S == SStr && b.S == SStr {
			switch x.Op {
			case "<":
				return Val{T: sx("str.lt", a.T, b.T), S: SBool}, nil
			case ">":
				return Val{T: sx("str.lt", b.T, a.T), S: SBool}, nil
			case "<=":
				return Val{T: not(sx("str.lt", b.T, a.T)), S: SBool}, nil
			default:
				return Val{T: not(sx("str.lt", a.T, b.T)), S: SBool}, nil
			}
		}
		if a.S == SF64 && b.S == SF64 {
			op := map[string]string{"<": "f.lt", "<=": "f.leq", ">": "f.gt", ">=": "f.geq"}[x.Op]
			return Val{T: sx(op, a.T, b.T), S: SBool}, nil
		}
		if a.S != SInt || b.S != SInt {
			return Val{}, fmt.Errorf("comparison of %s and %s in %s", a.S, b.S, x)
		}
		return Val{T: sx(x.Op, a.T, b.T), S: SBool}, nil
	case "+":
		if a.S == SStr && b.S == SStr {
			return Val{T: sx("str.concat", a.T, b.T), S: SStr, Ty: a.Ty}, nil
		}
		fallthrough
	case "-", "*":
		if a.S != SInt || b.S != SInt {
			if a.S == SF64 && b.S == SF64 {
				if op := map[string]string{"+": "f.add", "-": "f.sub", "*": "f.mul", "/": "f.div"}[x.Op]; op != "" {
					return Val{T: sx(op, a.T, b.T), S: SF64, Ty: a.Ty}, nil
				}
			}
			return Val{}, fmt.Errorf("arithmetic on %s and %s in %s", a.S, b.S, x)
		}
		return Val{T: sx(x.Op, a.T, b.T), S: SInt, Ty: types.Typ[types.Int]}, nil
	case "/":
		return Val{T: sx("div", a.T, b.T), S: SInt, Ty: types.Typ[types.Int]}, nil
	case "%":
		return Val{T: sx("mod", a.T, b.T), S: SInt, Ty: types.Typ[types.Int]}, nil
	}
	return Val{}, fmt.Errorf("operator %s", x.Op)
}

func (e *Env) equal(a, b Val) (string, error) {
	if a.S == "nil" && b.S == "nil" {
		return "true", nil
	}
	if b.S == "nil" {
		return e.isNil(a)
	}
	if a.S == "nil" {
		return e.isNil(b)
	}
	if a.S != b.S {
		return "", fmt.Errorf("equality of %s and %s", a.S, b.S)
	}
	if a.S == SF64 {
		// in specifications == on floats is identity of the value (NaN == NaN, -0 != +0), which is what "the result is this value"
		// means; Go's IEEE comparison (f.eq) is what the code's == compiles to
		return eq(a.T, b.T), nil
	}
	if a.S == "" {
		t := e.g.equalTerm(a, b)
		if t == "" {
			return "", fmt.Errorf("incomparable structs")
		}
		return t, nil
	}
	return eq(a.T, b.T), nil
}

func (e *Env) isNil(a Val) (string, error) {
	switch a.S {
	case SRef:
		return eq(a.T, "null"), nil
	case SSlice:
		return eq(sx("s-arr", a.T), "null"), nil
	case SIface:
		return eq(sx("i-typ", a.T), "0"), nil
	case SFn:
		return eq(a.T, "fn.nil"), nil
	}
	return "", fmt.Errorf("nil comparison on sort %s", a.S)
}

func (g *Gen) errIs() string {
	g.S.declareFun("err.is", []string{"Iface", "Iface"}, "Bool")
	if !g.S.declared["err.is.ax"] {
		g.S.declared["err.is.ax"] = true
		g.S.decls = append(g.S.decls,
			"(assert (forall ((e Iface)) (! (=> (not (= (i-typ e) 0)) (err.is e e)) :pattern ((err.is e e)))))",
			"(assert (forall ((e Iface) (t Iface)) (! (=> (= (i-typ e) 0) (not (err.is e t))) :pattern ((err.is e t)))))")
	}
	return "err.is"
}

func (e *Env) call(x *ECall) (Val, error) {
	g := e.g
	args := make([]Val, len(x.Args))
	evalArgs := func() error {
		for i, a := range x.Args {
			v, err := e.eval(a)
			if err != nil {
				return err
			}
			args[i] = v
		}
		return nil
	}
	need := func(n int) error {
		if len(x.Args) != n {
			return fmt.Errorf("%s takes %d arguments", x.Fun, n)
		}
		return evalArgs()
	}
	if x.Fun == "local" {
		// local(v): the function's own variable v at this point, even where the name also denotes a result (err)
		id, ok := x.Args[0].(*EIdent)
		if len(x.Args) != 1 || !ok {
			return Val{}, fmt.Errorf("local takes one variable name")
		}
		if e.noLocals || e.block == nil {
			return Val{}, fmt.Errorf("local(%s): no locals in this context", id.Name)
		}
		nv, ok := g.lookupLocal(id.Name, e.block, e.atEnd)
		if !ok {
			return Val{}, fmt.Errorf("local(%s): no such variable here", id.Name)
		}
		return e.localValue(nv), nil
	}
	if x.Fun == "atentry" {
		if len(x.Args) != 1 {
			return Val{}, fmt.Errorf("atentry takes one argument")
		}
		if e.entry == nil {
			return Val{}, fmt.Errorf("atentry outside a loop invariant")
		}
		n := e.sub()
		n.heap = e.entry
		n.phiSubst = e.entryPhi
		return n.eval(x.Args[0])
	}
	switch x.Fun {
	case "len":
		if err := need(1); err != nil {
			return Val{}, err
		}
		switch args[0].S {
		case SSlice:
			return Val{T: sx("s-len", args[0].T), S: SInt, Ty: types.Typ[types.Int]}, nil
		case SStr:
			return Val{T: sx("slen", args[0].T), S: SInt, Ty: types.Typ[types.Int]}, nil
		}
		return Val{}, fmt.Errorf("len of %s", args[0].S)
	case "cap":
		if err := need(1); err != nil {
			return Val{}, err
		}
		return Val{T: sx("s-cap", args[0].T), S: SInt, Ty: types.Typ[types.Int]}, nil
	case "string":
		if err := need(1); err != nil {
			return Val{}, err
		}
		a := args[0]
		if a.S == SStr {
			return a, nil
		}
		if a.S != SSlice {
			return Val{}, fmt.Errorf("string() of %s", a.S)
		}
		comp := g.elemComp(SInt)
		return Val{T: sx("str.ofbytes", sel(g.hget(e.heap, comp), sx("s-arr", a.T)), sx("s-off", a.T), sx("s-len", a.T)), S: SStr, Ty: types.Typ[types.String]}, nil
	case "witness":
		// witness(i): true; offers the index term i as a candidate witness when a goal of the unit is existential
		// (a proof hint: it adds no assumption - the goal is only replaced by the disjunction of some of its instances)
		if err := need(1); err != nil {
			return Val{}, err
		}
		if args[0].S == SInt && !strings.Contains(args[0].T, "|q!") && !g.S.declared["witness:"+args[0].T] {
			g.S.declared["witness:"+args[0].T] = true
			g.S.witTerms = append(g.S.witTerms, args[0].T)
		}
		return Val{T: "true", S: SBool, Ty: types.Typ[types.Bool]}, nil
	case "streq":
		// streq(s, t): s == t, provable by extensionality (same length, same bytes); the instance of the
		// extensionality theorem for this pair is added to the context (sound: strings are finite byte sequences)
		if err := need(2); err != nil {
			return Val{}, err
		}
		a, b := args[0].T, args[1].T
		if !strings.Contains(a, "|q!") && !strings.Contains(b, "|q!") && !g.S.declared["streq:"+a+"="+b] {
			g.S.declared["streq:"+a+"="+b] = true
			// the witness of a difference is a Skolem constant, so that the goal-directed instantiation can use it
			k := g.S.freshName("sk!streq")
			g.S.declare(k, "Int")
			g.S.instTerms = append(g.S.instTerms, k, sx("+", k, "1"))
			g.S.assert(imp(and(eq(sx("slen", a), sx("slen", b)),
				imp(and(sx("<=", "0", k), sx("<", k, sx("slen", a))), eq(sx("sat", a, k), sx("sat", b, k)))), eq(a, b)))
			g.S.assert(imp(and(eq(sx("slen", a), sx("slen", b)),
				fmt.Sprintf("(forall ((i Int)) (! (=> (and (<= 0 i) (< i (slen %s))) (= (sat %s i) (sat %s i))) :pattern ((sat %s i)) :pattern ((sat %s i))))", a, a, b, a, b)), eq(a, b)))
		}
		return Val{T: eq(a, b), S: SBool}, nil
	case "arrstr":
		// arrstr(a, off, n): the string made of a[off..off+n) for a ghost byte array a
		if err := need(3); err != nil {
			return Val{}, err
		}
		return Val{T: sx("str.ofbytes", args[0].T, args[1].T, args[2].T), S: SStr, Ty: types.Typ[types.String]}, nil
	case "errors.Is", "errIs":
		if err := need(2); err != nil {
			return Val{}, err
		}
		return Val{T: sx(g.errIs(), args[0].T, args[1].T), S: SBool}, nil
	case "fresh":
		if err := need(1); err != nil {
			return Val{}, err
		}
		r := args[0].T
		if args[0].S == SSlice {
			r = sx("s-arr", r)
		}
		return Val{T: and(not(eq(r, "null")), not(sel(g.hget(e.old, g.allocComp()), r))), S: SBool}, nil
	case "allocated":
		if err := need(1); err != nil {
			return Val{}, err
		}
		r := args[0].T
		if args[0].S == SSlice {
			r = sx("s-arr", r)
		}
		return Val{T: sel(g.hget(e.heap, g.allocComp()), r), S: SBool}, nil
	case "dom":
		if err := need(2); err != nil {
			return Val{}, err
		}
		m := args[0]
		if m.Ty == nil {
			return Val{}, fmt.Errorf("dom of untyped map")
		}
		mt, ok := m.Ty.Underlying().(*types.Map)
		if !ok {
			return Val{}, fmt.Errorf("dom of non-map")
		}
		ks, vs := g.sortOf(mt.Key()), g.sortOf(mt.Elem())
		return Val{T: and(not(eq(m.T, "null")), sel(sel(g.hget(e.heap, g.mapDomComp(ks, vs)), m.T), args[1].T)), S: SBool}, nil
	case "typeis":
		// typeis(x, "pkg.T") : dynamic type test on an interface value
		if len(x.Args) != 2 {
			return Val{}, fmt.Errorf("typeis(x, \"T\")")
		}
		v, err := e.eval(x.Args[0])
		if err != nil {
			return Val{}, err
		}
		ts, ok := x.Args[1].(*EStr)
		if !ok {
			return Val{}, fmt.Errorf("typeis needs a type string")
		}
		t, err := g.resolveType(ts.V)
		if err != nil {
			return Val{}, err
		}
		return Val{T: eq(sx("i-typ", v.T), num(int64(g.typeID(t)))), S: SBool}, nil
	case "unbox":
		// unbox(x, "pkg.T"): the dynamic value of an interface as type T
		if len(x.Args) != 2 {
			return Val{}, fmt.Errorf("unbox(x, \"T\")")
		}
		v, err := e.eval(x.Args[0])
		if err != nil {
			return Val{}, err
		}
		ts, ok := x.Args[1].(*EStr)
		if !ok {
			return Val{}, fmt.Errorf("unbox needs a type string")
		}
		t, err := g.resolveType(ts.V)
		if err != nil {
			return Val{}, err
		}
		so := g.sortOf(t)
		_, uf := g.S.box(so)
		return Val{T: sx(uf, sx("i-box", v.T)), S: so, Ty: t}, nil
	case "iface":
		// iface(x): x boxed into an interface value (as MakeInterface does)
		if err := need(1); err != nil {
			return Val{}, err
		}
		v := args[0]
		if v.Ty == nil || v.S == "" {
			return Val{}, fmt.Errorf("iface() of untyped value")
		}
		bf, _ := g.S.box(v.S)
		return Val{T: sx("mk-iface", num(int64(g.typeID(v.Ty))), sx(bf, v.T)), S: SIface}, nil
	case "elems":
		if err := need(1); err != nil {
			return Val{}, err
		}
		a := args[0]
		et := types.Type(types.Typ[types.Uint8])
		if a.Ty != nil {
			if st, ok := a.Ty.Underlying().(*types.Slice); ok {
				et = st.Elem()
			}
		}
		so := g.sortOf(et)
		return Val{T: sel(g.hget(e.heap, g.elemComp(so)), sx("s-arr", a.T)), S: Sort(arrSort("Int", string(so)))}, nil
	case "arr":
		if err := need(1); err != nil {
			return Val{}, err
		}
		return Val{T: sx("s-arr", args[0].T), S: SRef}, nil
	case "off":
		if err := need(1); err != nil {
			return Val{}, err
		}
		return Val{T: sx("s-off", args[0].T), S: SInt, Ty: types.Typ[types.Int]}, nil
	case "zerovalue":
		if len(x.Args) != 1 {
			return Val{}, fmt.Errorf("zerovalue(\"T\")")
		}
		ts, ok := x.Args[0].(*EStr)
		if !ok {
			return Val{}, fmt.Errorf("zerovalue needs a type string")
		}
		t, err := g.resolveType(ts.V)
		if err != nil {
			return Val{}, err
		}
		return g.zero(t), nil
	case "isInf":
		if err := need(1); err != nil {
			return Val{}, err
		}
		return Val{T: sx("f.isInf", args[0].T), S: SBool}, nil
	case "isNaN":
		if err := need(1); err != nil {
			return Val{}, err
		}
		return Val{T: sx("f.isNaN", args[0].T), S: SBool}, nil
	}
	if sf, ok := g.P.Contract.Specs[x.Fun]; ok {
		if err := need(len(sf.Params)); err != nil {
			return Val{}, err
		}
		if sf.Body != nil {
			n := e.sub()
			n.noLocals = true
			for i, p := range sf.Params {
				a := args[i]
				n.vars[p.Name] = a
			}
			return n.eval(sf.Body)
		}
		var ps, as []string
		for i, p := range sf.Params {
			ps = append(ps, string(g.specSort(p.Type)))
			as = append(as, args[i].T)
			if args[i].S == "nil" {
				as[i] = g.zeroOfSort(g.specSort(p.Type))
			}
		}
		rs := g.specSort(sf.Ret)
		fn := qsym("spec:" + sf.Name)
		g.S.declareFun(fn, ps, string(rs))
		if len(as) == 0 {
			return Val{T: fn, S: rs, Ty: ghostGoType(sf.Ret)}, nil
		}
		return Val{T: sx(fn, as...), S: rs, Ty: ghostGoType(sf.Ret)}, nil
	}
	return Val{}, fmt.Errorf("unknown function %s", x.Fun)
}

// resolveType finds a named type by "pkgname.Name" (optionally with a leading *).
func (g *Gen) resolveType(s string) (types.Type, error) {
	ptr := strings.HasPrefix(s, "*")
	s = strings.TrimPrefix(s, "*")
	switch s {
	case "string":
		return types.Typ[types.String], nil
	case "int":
		return types.Typ[types.Int], nil
	}
	i := strings.LastIndex(s, ".")
	if i < 0 {
		return nil, fmt.Errorf("type %q needs a package qualifier", s)
	}
	p := g.pkgByName(s[:i])
	if p == nil {
		return nil, fmt.Errorf("unknown package %s", s[:i])
	}
	obj := p.Scope().Lookup(s[i+1:])
	tn, ok := obj.(*types.TypeName)
	if !ok {
		return nil, fmt.Errorf("unknown type %s", s)
	}
	var t types.Type = tn.Type()
	if ptr {
		t = types.NewPointer(t)
	}
	return t, nil
}

// isRawHeapLoad reports whether t is (select |H| x) with H a named heap version (not a store/ite term).
func isRawHeapLoad(t string) bool {
	const p = "(select |"
	if !strings.HasPrefix(t, p) {
		return false
	}
	rest := t[len(p):]
	i := strings.Index(rest, "|")
	return i > 0 && i+1 < len(rest) && rest[i+1] == ' '
}
