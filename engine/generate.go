package engine

import (
	"fmt"
	"go/token"
	"go/types"
	"sort"
	"strings"

	"golang.org/x/tools/go/ssa"
)

// NewGen prepares a generator for fn.
func NewGen(p *Program, fn *ssa.Function, mode GenMode, prevComps []string) *Gen {
	g := &Gen{P: p, Fn: fn, S: newScript(), vals: map[ssa.Value]Val{}, reach: map[*ssa.BasicBlock]string{},
		heapOut: map[*ssa.BasicBlock]Heap{}, heapIn: map[*ssa.BasicBlock]Heap{}, compSort: map[string]string{},
		anchorN: map[string]int{}, Assumed: map[string]bool{}, names: map[string][]namedVal{}, params: map[string]Val{},
		mode: mode, typeIDs: map[string]int{}, staticFn: map[ssa.Value]*ssa.Function{}, invKnown: map[int]string{},
		allComps: prevComps, candInv: map[*ssa.BasicBlock][]autoCand{}, autoInv: map[*ssa.BasicBlock][]string{}}
	g.FC = p.contractFor(fn)
	if _, ok := p.ExecName[fn]; ok {
		g.FT = p.Contract.Funcs["functype:redis.Executor"]
	}
	return g
}

// contractFor finds the contract block of an in-repo function.
func (p *Program) contractFor(fn *ssa.Function) *FuncContract {
	if n, ok := p.ExecName[fn]; ok {
		if fc, ok := p.Contract.Funcs["executor:"+n]; ok {
			return fc
		}
	}
	return p.Contract.Funcs[FuncKey(fn)]
}

// GenerateFixpoint runs generation until the set of heap components is stable ("*" havoc needs all of them).
func GenerateFixpoint(p *Program, fn *ssa.Function, mode GenMode, dropInv map[string]bool) *Gen {
	scan := scanGen(p, fn)
	var prev []string
	for c := range scan.compSort {
		prev = append(prev, c)
	}
	sort.Strings(prev)
	for i := 0; i < 4; i++ {
		g := NewGen(p, fn, mode, prev)
		g.dropped = dropInv
		g.scanRes = scan
		for c, so := range scan.compSort {
			g.compSort[c] = so // the loop-head havoc needs every component's sort before its first use
		}
		g.Generate()
		var cs []string
		for c := range g.compSort {
			cs = append(cs, c)
		}
		sort.Strings(cs)
		if strings.Join(cs, ",") == strings.Join(prev, ",") || !g.usedAllHavoc {
			return g
		}
		prev = cs
	}
	g := NewGen(p, fn, mode, prev)
	g.dropped = dropInv
	g.scanRes = scan
	for c, so := range scan.compSort {
		g.compSort[c] = so
	}
	g.Generate()
	return g
}

func (g *Gen) collectNames() {
	for _, p := range g.Fn.Params {
		g.names[p.Name()] = append(g.names[p.Name()], namedVal{v: p, blk: nil, idx: -1})
	}
	for _, fv := range g.Fn.FreeVars {
		g.names[fv.Name()] = append(g.names[fv.Name()], namedVal{v: fv, isAddr: true, blk: nil, idx: -1})
	}
	for _, b := range g.Fn.Blocks {
		for i, ins := range b.Instrs {
			switch x := ins.(type) {
			case *ssa.DebugRef:
				id, ok := x.Expr.(interface{ String() string })
				_ = id
				name := ""
				if idn, ok2 := x.Expr.(interface{ Pos() token.Pos }); ok2 && ok {
					_ = idn
				}
				if x.Object() != nil {
					name = x.Object().Name()
				}
				if name == "" || name == "_" {
					continue
				}
				// only local variables bind a source name: the Sel identifier of x.f (a field object) or a package-level
				// object must not shadow a parameter or local of the same name
				if ov, isVar := x.Object().(*types.Var); !isVar || ov.IsField() || (ov.Parent() != nil && ov.Parent() == ov.Pkg().Scope()) {
					continue
				}
				g.names[name] = append(g.names[name], namedVal{v: x.X, isAddr: x.IsAddr, blk: b, idx: i})
			case *ssa.Phi:
				if x.Comment != "" {
					g.names[x.Comment] = append(g.names[x.Comment], namedVal{v: x, blk: b, idx: i})
				}
			case *ssa.Alloc:
				if x.Comment != "" && !strings.Contains(x.Comment, " ") {
					g.names[x.Comment] = append(g.names[x.Comment], namedVal{v: x, isAddr: true, blk: b, idx: i})
				}
			}
		}
	}
}

// lookupLocal finds the SSA value bound to a source name at the start of block at (phis of `at` included):
// among the SSA versions of the variable whose definition dominates the point, the closest one.
func (g *Gen) lookupLocal(name string, at *ssa.BasicBlock, atEnd bool) (namedVal, bool) {
	cands := g.names[name]
	var best *namedVal
	bestD, bestI := -3, -1
	depth := func(b *ssa.BasicBlock) int {
		d := 0
		for x := b; x != nil; x = x.Idom() {
			d++
		}
		return d
	}
	// a variable that lives in memory (address-taken local, captured variable) is always read through its cell
	for i := range cands {
		c := &cands[i]
		if !c.isAddr {
			continue
		}
		switch v := c.v.(type) {
		case *ssa.FreeVar, *ssa.Global:
			return *c, true
		case *ssa.Alloc:
			if at == nil || v.Block() == at || v.Block().Dominates(at) {
				return *c, true
			}
		}
	}
	for i := range cands {
		c := &cands[i]
		d, idx := -1, -1
		switch v := c.v.(type) {
		case *ssa.Parameter, *ssa.FreeVar, *ssa.Global:
			d = 0
		case *ssa.Const:
			d = -2 // the zero value recorded at a declaration: only if nothing else is known
		case ssa.Instruction:
			db := v.Block()
			if db == nil || at == nil {
				continue
			}
			_, isPhi := c.v.(*ssa.Phi)
			switch {
			case db == at:
				if !isPhi && !atEnd {
					continue
				}
			case !db.Dominates(at):
				continue
			}
			d = depth(db)
			for k, ins := range db.Instrs {
				if ins == v {
					idx = k
				}
			}
		default:
			continue
		}
		if best == nil || d > bestD || (d == bestD && idx > bestI) {
			best, bestD, bestI = c, d, idx
		}
	}
	if best == nil {
		return namedVal{}, false
	}
	return *best, true
}

// Generate produces all obligations of the function.
func (g *Gen) Generate() {
	fn := g.Fn
	if len(fn.Blocks) == 0 {
		return
	}
	g.analyzeCFG()
	g.collectNames()
	g.bindLoopSpecs()
	entry := Heap{}
	g.entryHeap = entry
	g.allocComp()
	g.S.assert(not(sel(g.initSym("ALLOC"), "null")))
	// parameters
	for i, p := range fn.Params {
		v := g.fresh(p.Type(), "p:"+p.Name())
		g.vals[p] = v
		g.params[p.Name()] = v
		if i == 0 && fn.Signature.Recv() != nil {
			g.params["recv"] = v
			g.params["this"] = v
			if v.S == SRef && !g.flag("nilable_recv") {
				g.S.assert(not(eq(v.T, "null")))
			}
		}
		g.assumeAllocated(entry, v)
	}
	g.closedElems(entry)
	for _, fv := range fn.FreeVars {
		v := g.fresh(fv.Type(), "fv:"+fv.Name())
		g.vals[fv] = v
		if v.S == SRef {
			g.S.assert(not(eq(v.T, "null")))
		}
	}
	// preconditions
	env := g.newEnv(entry, entry, fn.Blocks[0])
	if g.FT != nil {
		g.bindFunctypeParams(env)
		for _, c := range g.FT.Requires {
			// a closure that does not capture a name mentioned by the generic contract simply does not get that assumption
			if _, err := env.evalBool(c.Expr); err != nil && strings.Contains(err.Error(), "server") {
				continue
			}
			g.assumeClause(env, c, "true")
		}
	}
	if g.FC != nil {
		for _, c := range g.FC.Requires {
			g.assumeClause(env, c, "true")
		}
		for _, c := range g.FC.Captured {
			g.assumeClause(env, c, "true")
			g.Assumed["captured-variable precondition of "+g.FnName()+" (established where the closure is created, not re-checked at calls): "+strings.TrimSpace(c.Text)] = true
		}
	}
	g.assumeStructInvs(entry, "true")
	// blocks
	for _, b := range g.order {
		g.curBlock = b
		h := g.enterBlock(b)
		g.heapIn[b] = h
		for _, ins := range b.Instrs {
			h2 := g.instr(b, ins, h)
			if g.scan {
				g.recordWrites(b, h, h2)
			}
			h = h2
		}
		g.heapOut[b] = h
	}
	// back-edge obligations
	g.curBlock = nil
	for _, li := range g.loopList {
		g.closeLoop(li)
	}
}

func (g *Gen) flag(name string) bool {
	if g.FC == nil {
		return false
	}
	_, ok := g.FC.Flags[name]
	return ok
}

func (g *Gen) assumeAllocated(h Heap, v Val) {
	if v.S == SRef && v.T != "null" {
		g.S.assert(or(eq(v.T, "null"), sel(g.hget(h, g.allocComp()), v.T)))
	}
	if v.S == SSlice {
		g.S.assert(or(eq(sx("s-arr", v.T), "null"), sel(g.hget(h, g.allocComp()), sx("s-arr", v.T))))
	}
	for _, f := range v.Flds {
		g.assumeAllocated(h, f)
	}
}

func (g *Gen) assumeClause(env *Env, c *Clause, guard string) {
	t, err := env.evalBool(c.Expr)
	if err != nil {
		g.unsupported("%s:%d: cannot evaluate %s %q: %v", shortFile(c.File), c.Line, c.Kind, c.Text, err)
		return
	}
	g.S.assert(imp(guard, t))
}

func shortFile(f string) string {
	if i := strings.LastIndex(f, "/"); i >= 0 {
		return f[i+1:]
	}
	return f
}

// edgeCond returns the condition under which control flows p -> s.
func (g *Gen) edgeCond(p, s *ssa.BasicBlock) string {
	r := g.reach[p]
	if len(p.Instrs) == 0 {
		return r
	}
	if iff, ok := p.Instrs[len(p.Instrs)-1].(*ssa.If); ok {
		c := g.val(iff.Cond).T
		switch {
		case p.Succs[0] == s && p.Succs[1] == s:
			return r
		case p.Succs[0] == s:
			return and(r, c)
		default:
			return and(r, not(c))
		}
	}
	return r
}

// enterBlock computes reach, merged heap and phis for b.
func (g *Gen) enterBlock(b *ssa.BasicBlock) Heap {
	rn := qsym(fmt.Sprintf("reach.b%d", b.Index))
	g.S.declare(rn, "Bool")
	if b.Index == 0 {
		g.S.assert(rn)
		g.reach[b] = rn
		g.phis(b, nil, nil)
		return g.entryHeap
	}
	var preds []*ssa.BasicBlock
	var conds []string
	for _, p := range b.Preds {
		if g.backEdge[[2]int{p.Index, b.Index}] {
			continue
		}
		if _, ok := g.reach[p]; !ok {
			continue // unreachable pred
		}
		preds = append(preds, p)
		conds = append(conds, g.edgeCond(p, b))
	}
	if g.loops[b] != nil {
		// a loop head is a cut point: "reached in some iteration" implies, but is not implied by, "entered". Obligations on
		// entry (inv-init, entry_assert) are guarded by the entry condition and must not see the head assumptions.
		en := qsym(fmt.Sprintf("enter.b%d", b.Index))
		g.S.declare(en, "Bool")
		g.S.assert(eq(en, or(conds...)))
		g.S.assert(imp(rn, en))
		if g.loopEntry == nil {
			g.loopEntry = map[*ssa.BasicBlock]string{}
		}
		g.loopEntry[b] = en
	} else {
		g.S.assert(eq(rn, or(conds...)))
	}
	g.reach[b] = rn
	h := g.mergeHeaps(b, preds, conds)
	li := g.loops[b]
	if li == nil {
		g.phis(b, preds, conds)
		return h
	}
	return g.enterLoop(li, h, preds, conds)
}

func (g *Gen) mergeHeaps(b *ssa.BasicBlock, preds []*ssa.BasicBlock, conds []string) Heap {
	if len(preds) == 0 {
		return Heap{}
	}
	if len(preds) == 1 {
		return g.heapOut[preds[0]]
	}
	keys := map[string]bool{}
	for _, p := range preds {
		for k := range g.heapOut[p] {
			keys[k] = true
		}
	}
	var ks []string
	for k := range keys {
		ks = append(ks, k)
	}
	sort.Strings(ks)
	h := Heap{}
	for _, k := range ks {
		var ts []string
		same := true
		for _, p := range preds {
			t := g.hget(g.heapOut[p], k)
			ts = append(ts, t)
			if t != ts[0] {
				same = false
			}
		}
		if same {
			h[k] = ts[0]
			continue
		}
		n := qsym(fmt.Sprintf("%s@b%d", k, b.Index))
		g.S.declare(n, g.compSort[k])
		term := ts[len(ts)-1]
		for i := len(ts) - 2; i >= 0; i-- {
			term = ite(conds[i], ts[i], term)
		}
		g.S.assert(eq(n, term))
		h[k] = n
	}
	return h
}

func (g *Gen) phis(b *ssa.BasicBlock, preds []*ssa.BasicBlock, conds []string) {
	for _, ins := range b.Instrs {
		phi, ok := ins.(*ssa.Phi)
		if !ok {
			break
		}
		var vs []Val
		for _, p := range preds {
			idx := predIndex(b, p)
			vs = append(vs, g.val(phi.Edges[idx]))
		}
		if len(vs) == 0 {
			g.vals[phi] = g.fresh(phi.Type(), "phi:"+phi.Name())
			continue
		}
		g.vals[phi] = g.mergeVals(phi, vs, conds)
	}
}

func predIndex(b, p *ssa.BasicBlock) int {
	for i, q := range b.Preds {
		if q == p {
			return i
		}
	}
	return 0
}

func (g *Gen) mergeVals(phi *ssa.Phi, vs []Val, conds []string) Val {
	out := vs[len(vs)-1]
	if out.S == "" {
		res := Val{Ty: out.Ty}
		for f := range out.Flds {
			var fs []Val
			for _, v := range vs {
				fs = append(fs, v.Flds[f])
			}
			res.Flds = append(res.Flds, g.mergeVals(phi, fs, conds))
		}
		return res
	}
	if out.Addr != nil {
		g.unsupported("phi of field/element address %s", phi.Name())
		return g.fresh(phi.Type(), "phi:"+phi.Name())
	}
	term := out.T
	for i := len(vs) - 2; i >= 0; i-- {
		term = ite(conds[i], vs[i].T, term)
	}
	n := g.S.freshName("phi:" + phi.Name())
	g.S.declare(n, string(out.S))
	g.S.assert(eq(n, term))
	return Val{T: n, S: out.S, Ty: phi.Type()}
}

// ---------------------------------------------------------------- loops

func (g *Gen) bindLoopSpecs() {
	if g.FC == nil {
		return
	}
	for k, spec := range g.FC.Loops {
		if k < 0 || k >= len(g.loopList) {
			// the loop the invariants were written for is gone: the facts they established are no longer established
			if g.mode.Contracts {
				for i, c := range spec.Invariants {
					g.oblige("inv-init", fmt.Sprintf("loop%d[%d] %s", k, i, c.Text), c.Text+" (loop no longer exists)", "true", "false", g.Fn.Pos())
				}
			}
			continue
		}
		g.loopList[k].spec = spec
	}
}

func (g *Gen) enterLoop(li *loopInfo, h Heap, preds []*ssa.BasicBlock, conds []string) Heap {
	b := li.head
	g.loopWritesFromScan(li)
	li.preHeap = h
	// entry values of phis
	entryVals := map[*ssa.Phi]Val{}
	for _, ins := range b.Instrs {
		phi, ok := ins.(*ssa.Phi)
		if !ok {
			break
		}
		var vs []Val
		for _, p := range preds {
			vs = append(vs, g.val(phi.Edges[predIndex(b, p)]))
		}
		if len(vs) > 0 {
			entryVals[phi] = g.mergeVals(phi, vs, conds)
		}
	}
	// havoc: fresh phis, fresh modified components
	for _, ins := range b.Instrs {
		phi, ok := ins.(*ssa.Phi)
		if !ok {
			break
		}
		g.vals[phi] = g.fresh(phi.Type(), fmt.Sprintf("loop%d:%s", li.ordinal, phiName(phi)))
	}
	hh := h.clone()
	var hv []string
	if li.all {
		g.usedAllHavoc = true
		for _, c := range g.allComps {
			hv = append(hv, c)
		}
		for c := range h {
			hv = append(hv, c)
		}
	}
	for c := range li.havoc {
		hv = append(hv, c)
	}
	sort.Strings(hv)
	seen := map[string]bool{}
	for _, c := range hv {
		if seen[c] {
			continue
		}
		seen[c] = true
		if _, ok := g.compSort[c]; !ok {
			if !g.scan {
				g.unsupported("loop%d modifies component %s of unknown sort", li.ordinal, c)
			}
			continue
		}
		n := qsym(fmt.Sprintf("%s@loop%d", c, li.ordinal))
		g.S.declare(n, g.compSort[c])
		if c == "ALLOC" {
			g.S.assert(fmt.Sprintf("(forall ((r Ref)) (! (=> (select %s r) (select %s r)) :pattern ((select %s r))))", g.hget(h, c), n, n))
			if init := g.initSym(c); init != g.hget(h, c) {
				g.S.assert(fmt.Sprintf("(forall ((r Ref)) (! (=> (select %s r) (select %s r)) :pattern ((select %s r))))", init, n, n))
			}
			g.S.assert(not(sel(n, "null")))
		}
		hh[c] = n
	}
	li.headHeap = hh
	// every reference held in a loop-carried variable is allocated (or nil) in the loop-head heap
	for _, ins := range b.Instrs {
		phi, ok := ins.(*ssa.Phi)
		if !ok {
			break
		}
		g.assumeAllocated(hh, g.vals[phi])
	}
	guard := g.reach[b]
	entryGuard := guard
	if en, ok := g.loopEntry[b]; ok {
		entryGuard = en
	}
	// obligations on entry + assumptions at head
	li.entryVals = entryVals
	envEntry := g.newEnv(h, g.entryHeap, b)
	envEntry.phiSubst = entryVals
	envEntry.entry, envEntry.entryPhi = h, entryVals
	envHead := g.newEnv(hh, g.entryHeap, b)
	envHead.entry, envHead.entryPhi = h, entryVals
	if li.spec != nil && g.mode.Contracts {
		for k, c := range li.spec.Invariants {
			t, err := envEntry.evalBool(c.Expr)
			if err != nil {
				g.unsupported("%s:%d: invariant %q: %v", shortFile(c.File), c.Line, c.Text, err)
				continue
			}
			g.oblige("inv-init", fmt.Sprintf("loop%d[%d] %s", li.ordinal, k, c.Text), c.Text, entryGuard, t, b.Instrs[0].Pos())
		}
	}
	if li.spec != nil && g.mode.Contracts {
		for k, c := range li.spec.EntryAsserts {
			t, err := envEntry.evalBool(c.Expr)
			if err != nil {
				g.unsupported("%s:%d: entry_assert %q: %v", shortFile(c.File), c.Line, c.Text, err)
				continue
			}
			g.oblige("entry-assert", fmt.Sprintf("loop%d[%d] %s", li.ordinal, k, c.Text), c.Text, entryGuard, t, b.Instrs[0].Pos())
		}
	}
	if li.spec != nil {
		for _, c := range li.spec.Invariants {
			g.assumeClause(envHead, c, guard)
		}
		if li.spec.Decreases != nil {
			v, err := envHead.eval(li.spec.Decreases.Expr)
			if err == nil {
				li.decAtHead = v.T
			} else {
				g.unsupported("decreases %q: %v", li.spec.Decreases.Text, err)
			}
		}
	}
	// automatic candidates (Houdini): kept only if not dropped by a previous round
	for _, c := range g.autoCandidates(li, entryVals) {
		if g.dropped[g.FnName()+"/"+c.id] {
			continue
		}
		phiHead := func(p *ssa.Phi) Val { return g.vals[p] }
		phiEntry := func(p *ssa.Phi) Val {
			if v, ok := entryVals[p]; ok {
				return v
			}
			return g.vals[p]
		}
		o := g.oblige("auto-init", c.id, c.id, entryGuard, c.expr(phiEntry, h), b.Instrs[0].Pos())
		o.Clause = "auto"
		g.S.assert(imp(guard, c.expr(phiHead, hh)))
		g.candInv[b] = append(g.candInv[b], c)
	}
	g.assumeStructInvsIfHavoc(li, hh)
	return hh
}

func phiName(p *ssa.Phi) string {
	if p.Comment != "" {
		return p.Comment
	}
	return p.Name()
}

// closeLoop emits preservation and termination obligations on each back edge.
func (g *Gen) closeLoop(li *loopInfo) {
	b := li.head
	for _, p := range li.backs {
		if _, ok := g.reach[p]; !ok {
			continue
		}
		guard := g.edgeCond(p, b)
		hp := g.heapOut[p]
		subst := map[*ssa.Phi]Val{}
		for _, ins := range b.Instrs {
			phi, ok := ins.(*ssa.Phi)
			if !ok {
				break
			}
			subst[phi] = g.val(phi.Edges[predIndex(b, p)])
		}
		env := g.newEnv(hp, g.entryHeap, b)
		env.phiSubst = subst
		env.entry, env.entryPhi = li.preHeap, li.entryVals
		if li.spec != nil && g.mode.Contracts {
			for k, c := range li.spec.Invariants {
				t, err := env.evalBool(c.Expr)
				if err != nil {
					continue
				}
				g.oblige("inv-pres", fmt.Sprintf("loop%d[%d] %s", li.ordinal, k, c.Text), c.Text, guard, t, b.Instrs[0].Pos())
			}
			if li.spec.Decreases != nil && li.decAtHead != "" {
				v, err := env.eval(li.spec.Decreases.Expr)
				if err == nil {
					g.oblige("dec", fmt.Sprintf("loop%d %s", li.ordinal, li.spec.Decreases.Text), li.spec.Decreases.Text, guard,
						and(sx("<=", "0", li.decAtHead), sx("<", v.T, li.decAtHead)), b.Instrs[0].Pos())
				}
			}
		}
		for _, c := range g.candInv[b] {
			phiBack := func(ph *ssa.Phi) Val {
				if v, ok := subst[ph]; ok {
					return v
				}
				return g.vals[ph]
			}
			o := g.oblige("auto-pres", c.id, c.id, guard, c.expr(phiBack, hp), b.Instrs[0].Pos())
			o.Clause = "auto"
		}
		g.checkStructInvsAtBackEdge(li, hp, guard)
	}
}

// autoCandidates proposes simple inductive-invariant candidates over integer phis of the loop head:
//   lo <= v          when the entry value is an integer constant lo (and the step is non-negative by Houdini)
//   v <= len(s)-ish  is left to explicit invariants.
func (g *Gen) autoCandidates(li *loopInfo, entryVals map[*ssa.Phi]Val) []autoCand {
	var out []autoCand
	b := li.head
	for _, ins := range b.Instrs {
		phi, ok := ins.(*ssa.Phi)
		if !ok {
			break
		}
		if g.sortOf(phi.Type()) != SInt {
			continue
		}
		ph := phi
		for i, e := range phi.Edges {
			pb := b.Preds[i]
			if g.backEdge[[2]int{pb.Index, b.Index}] {
				continue
			}
			if c, ok := e.(*ssa.Const); ok && c.Value != nil {
				lo := g.constVal(c).T
				out = append(out, autoCand{id: fmt.Sprintf("loop%d:%s>=%s", li.ordinal, phiName(phi), strings.Trim(lo, "()")),
					expr: func(pv func(*ssa.Phi) Val, h Heap) string { return sx("<=", lo, pv(ph).T) }})
			}
		}
	}
	// upper-bound candidates from comparisons inside the loop: p <= Y and p < Y for a head phi p (or p+c) compared with a loop-invariant Y
	headPhi := func(v ssa.Value) *ssa.Phi {
		if ph, ok := v.(*ssa.Phi); ok && ph.Block() == b {
			return ph
		}
		if bo, ok := v.(*ssa.BinOp); ok && (bo.Op == token.ADD || bo.Op == token.SUB) {
			if ph, ok := bo.X.(*ssa.Phi); ok && ph.Block() == b {
				if _, isC := bo.Y.(*ssa.Const); isC {
					return ph
				}
			}
		}
		return nil
	}
	invariantVal := func(v ssa.Value) bool {
		switch x := v.(type) {
		case *ssa.Const, *ssa.Parameter:
			return true
		case ssa.Instruction:
			return x.Block() != nil && !li.body[x.Block()] && x.Block().Dominates(b)
		}
		return false
	}
	seenC := map[string]bool{}
	for blk := range li.body {
		for _, ins := range blk.Instrs {
			bo, ok := ins.(*ssa.BinOp)
			if !ok {
				continue
			}
			var ph *ssa.Phi
			var y ssa.Value
			switch bo.Op {
			case token.LSS, token.LEQ:
				ph, y = headPhi(bo.X), bo.Y
			case token.GTR, token.GEQ:
				ph, y = headPhi(bo.Y), bo.X
			default:
				continue
			}
			if ph == nil || !invariantVal(y) || g.sortOf(ph.Type()) != SInt || g.sortOf(y.Type()) != SInt {
				continue
			}
			yv := y
			for _, op := range []string{"<=", "<"} {
				id := fmt.Sprintf("loop%d:%s%s%s", li.ordinal, phiName(ph), op, y.Name())
				if seenC[id] {
					continue
				}
				seenC[id] = true
				opc, phc := op, ph
				out = append(out, autoCand{id: id, expr: func(pv func(*ssa.Phi) Val, h Heap) string { return sx(opc, pv(phc).T, g.val(yv).T) }})
			}
		}
	}
	// frame candidates: a component havocked by the loop is unchanged on every object that existed at function entry
	if ((g.FC != nil && g.FC.HasAssign) || (g.FT != nil && g.FT.HasAssign)) && g.mode.Contracts {
		al := g.initSym(g.allocComp())
		whole, allowed, _, okf := g.frameSpec()
		var cs []string
		for c := range li.havoc {
			cs = append(cs, c)
		}
		sort.Strings(cs)
		for _, c := range cs {
			so := g.compSort[c]
			if c == "ALLOC" || !strings.HasPrefix(so, "(Array Ref ") || !okf || whole[c] {
				continue
			}
			comp := c
			var ex []string
			for _, r := range allowed[c] {
				ex = append(ex, not(eq("r", r)))
			}
			out = append(out, autoCand{id: fmt.Sprintf("loop%d:frame:%s", li.ordinal, c),
				expr: func(pv func(*ssa.Phi) Val, h Heap) string {
					cur, init := g.hget(h, comp), g.initSym(comp)
					if cur == init {
						return "true"
					}
					return fmt.Sprintf("(forall ((r Ref)) (! (=> %s (= (select %s r) (select %s r))) :pattern ((select %s r))))", and(append([]string{sel(al, "r")}, ex...)...), cur, init, cur)
				}})
		}
	}
	return out
}

var _ = types.Typ

// closedElems states, for an unknown heap (entry state, loop head, state after a call that writes pointer slices), that the
// pointers stored in slice elements are nil or allocated: the quantified form of the assumption made for every pointer the code
// loads (assumeAllocated). Without it a freshly allocated object could not be told apart from z.members[i] in a specification.
func (g *Gen) closedElems(h Heap) {
	c := compE(SRef)
	if _, ok := g.compSort[c]; !ok {
		return
	}
	e, a := g.hget(h, c), g.hget(h, g.allocComp())
	key := "closed:" + e + "/" + a
	if g.S.declared[key] {
		return
	}
	g.S.declared[key] = true
	g.Assumed["closed heap: a pointer stored in a slice element of an unknown state (entry, loop head, after a call) is nil or points to an allocated object - Go's memory safety, the quantified form of what is assumed for every pointer the code loads"] = true
	g.S.assert(fmt.Sprintf("(forall ((r Ref) (i Int)) (! (or (= (select (select %s r) i) null) (select %s (select (select %s r) i))) :pattern ((select (select %s r) i))))", e, a, e, e))
}
