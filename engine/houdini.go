package engine

import (
	"golang.org/x/tools/go/ssa"
)

// HoudiniGen generates and solves fn; automatic invariant candidates that fail are dropped and the unit is redone.
func HoudiniGen(p *Program, fn *ssa.Function, mode GenMode, opts SolveOpts, stats *SolverStats) *Gen {
	dropped := map[string]bool{}
	for round := 0; round < 6; round++ {
		g := GenerateFixpoint(p, fn, mode, dropped)
		SolveGen(g, opts, stats)
		again := false
		for _, o := range g.Obls {
			if (o.Kind == "auto-init" || o.Kind == "auto-pres") && o.Status != "proved" {
				dropped[g.FnName()+"/"+o.Anchor] = true
				again = true
			}
		}
		if !again {
			// auto obligations are bookkeeping, not claims
			var keep []*Obligation
			for _, o := range g.Obls {
				if o.Kind != "auto-init" && o.Kind != "auto-pres" {
					keep = append(keep, o)
				} else {
					g.AutoInv = append(g.AutoInv, o.Anchor)
				}
			}
			g.Obls = keep
			return g
		}
	}
	g := GenerateFixpoint(p, fn, mode, dropped)
	SolveGen(g, opts, stats)
	return g
}
