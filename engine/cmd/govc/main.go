package main

import (
	"flag"
	"fmt"
	"os"
	"sort"
	"strings"
	"sync"

	"verif/engine"
)

func main() {
	if len(os.Args) < 2 {
		fmt.Fprintln(os.Stderr, "usage: govc <vc|check|list> ...")
		os.Exit(2)
	}
	switch os.Args[1] {
	case "audit":
		os.Exit(engine.Audit(load()))
	case "vc":
		vcCmd(os.Args[2:])
	case "list":
		p := load()
		for _, k := range p.SortedFuncKeys() {
			fmt.Println(k)
		}
	case "check":
		os.Exit(engine.CheckMain(os.Args[2:]))
	default:
		fmt.Fprintln(os.Stderr, "unknown command")
		os.Exit(2)
	}
}

func load() *engine.Program {
	repo := os.Getenv("VERIF_REPO")
	if repo == "" {
		repo = "/repo"
	}
	p, err := engine.Load(repo)
	if err != nil {
		fmt.Fprintln(os.Stderr, "ENGINE-ERROR load:", err)
		os.Exit(2)
	}
	return p
}

// vc: generate and solve the obligations of functions matching a substring.
func vcCmd(args []string) {
	fs := flag.NewFlagSet("vc", flag.ExitOnError)
	sweep := fs.Bool("sweep", true, "safety obligations")
	contracts := fs.Bool("contracts", true, "contract obligations")
	keep := fs.String("out", "/tmp/govc-out", "output dir")
	verbose := fs.Bool("v", false, "print all obligations")
	ms := fs.Int("ms", 3000, "timeout")
	ssaDump := fs.Bool("ssa", false, "dump SSA")
	fs.Parse(args)
	p := load()
	stats := &engine.SolverStats{}
	var keys []string
	for _, k := range p.SortedFuncKeys() {
		match := false
		for _, pat := range fs.Args() {
			if strings.Contains(k, pat) || (p.ExecName[p.Funcs[k]] != "" && strings.Contains("redis.executor:"+p.ExecName[p.Funcs[k]]+":", pat)) {
				match = true
			}
		}
		if match {
			keys = append(keys, k)
		}
	}
	outs := make([]string, len(keys))
	var wg sync.WaitGroup
	var mu sync.Mutex
	sem := make(chan struct{}, 8)
	for i, k := range keys {
		wg.Add(1)
		sem <- struct{}{}
		go func(i int, k string) {
			defer wg.Done()
			defer func() { <-sem }()
			fn := p.Funcs[k]
			var b strings.Builder
			if *ssaDump {
				fn.WriteTo(&b)
			}
			g := engine.HoudiniLocked(p, fn, engine.GenMode{Sweep: *sweep, Contracts: *contracts}, engine.SolveOpts{QuickMs: *ms, RaceMs: *ms * 3, OutDir: *keep, Seed: envSeed()}, stats, &mu)
			fmt.Fprintf(&b, "== %s: %d obligations\n", g.FnName(), len(g.Obls))
			for _, u := range g.Unsupported {
				fmt.Fprintln(&b, "   UNSUPPORTED:", u)
			}
			for _, w := range g.Warnings {
				fmt.Fprintln(&b, "   warn:", w)
			}
			for _, w := range g.Vacuous {
				fmt.Fprintln(&b, "   VACUOUS:", w)
			}
			var as []string
			for a := range g.Assumed {
				as = append(as, a)
			}
			sort.Strings(as)
			if *verbose {
				for _, a := range as {
					fmt.Fprintln(&b, "   assume:", a)
				}
			}
			for _, o := range g.Obls {
				if o.Status != "proved" || *verbose {
					fmt.Fprintf(&b, "   [%s] %s  (%s %.2fs) %s\n", o.Status, o.Name, o.Solver, o.TimeS, o.Output)
				}
			}
			outs[i] = b.String()
		}(i, k)
	}
	wg.Wait()
	for _, o := range outs {
		fmt.Print(o)
	}
}

// envSeed reads the solver seed from VERIF_SEED (0 when unset).
func envSeed() int {
	n := 0
	fmt.Sscanf(os.Getenv("VERIF_SEED"), "%d", &n)
	return n
}
