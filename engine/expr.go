package engine

import (
	"fmt"
	"strconv"
	"strings"
	"unicode"
)

// Expr is the AST of the contract expression language.
type Expr interface{ String() string }

type (
	EIdent  struct{ Name string }
	EInt    struct{ V string }
	EStr    struct{ V string }
	EBool   struct{ V bool }
	ENil    struct{}
	EUnary  struct{ Op string; X Expr }
	EBinary struct{ Op string; L, R Expr }
	ECall   struct{ Fun string; Args []Expr }
	ESel    struct{ X Expr; Name string }
	EIndex  struct{ X, I Expr }
	ESlice  struct{ X, Lo, Hi Expr }
	EOld    struct{ X Expr }
	EQuant  struct {
		Forall bool
		Vars   []SpecParam
		Body   Expr
	}
	EIte struct{ C, T, E Expr }
)

func (e *EIdent) String() string  { return e.Name }
func (e *EInt) String() string    { return e.V }
func (e *EStr) String() string    { return strconv.Quote(e.V) }
func (e *EBool) String() string   { return fmt.Sprint(e.V) }
func (e *ENil) String() string    { return "nil" }
func (e *EUnary) String() string  { return e.Op + e.X.String() }
func (e *EBinary) String() string { return "(" + e.L.String() + " " + e.Op + " " + e.R.String() + ")" }
func (e *ECall) String() string {
	var as []string
	for _, a := range e.Args {
		as = append(as, a.String())
	}
	return e.Fun + "(" + strings.Join(as, ", ") + ")"
}
func (e *ESel) String() string   { return e.X.String() + "." + e.Name }
func (e *EIndex) String() string { return e.X.String() + "[" + e.I.String() + "]" }
func (e *ESlice) String() string {
	lo, hi := "", ""
	if e.Lo != nil {
		lo = e.Lo.String()
	}
	if e.Hi != nil {
		hi = e.Hi.String()
	}
	return e.X.String() + "[" + lo + ":" + hi + "]"
}
func (e *EOld) String() string { return "old(" + e.X.String() + ")" }
func (e *EQuant) String() string {
	q := "exists"
	if e.Forall {
		q = "forall"
	}
	var vs []string
	for _, v := range e.Vars {
		vs = append(vs, v.Name+" "+v.Type)
	}
	return q + " " + strings.Join(vs, ", ") + " :: " + e.Body.String()
}
func (e *EIte) String() string {
	return "(" + e.C.String() + " ? " + e.T.String() + " : " + e.E.String() + ")"
}

type tok struct {
	k string // id int str op eof
	v string
}

type lexer struct {
	toks []tok
	pos  int
}

func lex(s string) ([]tok, error) {
	var out []tok
	i := 0
	for i < len(s) {
		c := s[i]
		switch {
		case c == ' ' || c == '\t' || c == '\n':
			i++
		case unicode.IsLetter(rune(c)) || c == '_' || c == '$':
			j := i
			for j < len(s) && (unicode.IsLetter(rune(s[j])) || unicode.IsDigit(rune(s[j])) || s[j] == '_' || s[j] == '$') {
				j++
			}
			out = append(out, tok{"id", s[i:j]})
			i = j
		case unicode.IsDigit(rune(c)):
			j := i
			for j < len(s) && (unicode.IsDigit(rune(s[j])) || s[j] == 'x' || (s[j] >= 'a' && s[j] <= 'f') || (s[j] >= 'A' && s[j] <= 'F')) {
				j++
			}
			n, err := strconv.ParseInt(s[i:j], 0, 64)
			if err != nil {
				// allow big decimal
				out = append(out, tok{"int", s[i:j]})
			} else {
				out = append(out, tok{"int", strconv.FormatInt(n, 10)})
			}
			i = j
		case c == '"':
			j := i + 1
			for j < len(s) && s[j] != '"' {
				if s[j] == '\\' {
					j++
				}
				j++
			}
			if j >= len(s) {
				return nil, fmt.Errorf("unterminated string")
			}
			v, err := strconv.Unquote(s[i : j+1])
			if err != nil {
				return nil, err
			}
			out = append(out, tok{"str", v})
			i = j + 1
		case c == '\'':
			j := i + 1
			for j < len(s) && s[j] != '\'' {
				if s[j] == '\\' {
					j++
				}
				j++
			}
			if j >= len(s) {
				return nil, fmt.Errorf("unterminated char")
			}
			r, _, _, err := strconv.UnquoteChar(s[i+1:j], '\'')
			if err != nil {
				return nil, err
			}
			out = append(out, tok{"int", strconv.Itoa(int(r))})
			i = j + 1
		default:
			ops := []string{"<==>", "==>", "::", "==", "!=", "<=", ">=", "&&", "||", "&", "<", ">", "+", "-", "*", "/", "%", "!", "(", ")", "[", "]", ".", ",", ":", "?"}
			matched := false
			for _, op := range ops {
				if strings.HasPrefix(s[i:], op) {
					out = append(out, tok{"op", op})
					i += len(op)
					matched = true
					break
				}
			}
			if !matched {
				return nil, fmt.Errorf("unexpected character %q", c)
			}
		}
	}
	out = append(out, tok{"eof", ""})
	return out, nil
}

func ParseExpr(s string) (Expr, error) {
	ts, err := lex(s)
	if err != nil {
		return nil, fmt.Errorf("%v in %q", err, s)
	}
	l := &lexer{toks: ts}
	e, err := l.expr()
	if err != nil {
		return nil, fmt.Errorf("%v in %q", err, s)
	}
	if l.peek().k != "eof" {
		return nil, fmt.Errorf("trailing %q in %q", l.peek().v, s)
	}
	return e, nil
}

func (l *lexer) peek() tok { return l.toks[l.pos] }
func (l *lexer) next() tok { t := l.toks[l.pos]; l.pos++; return t }
func (l *lexer) isOp(v string) bool {
	t := l.peek()
	return t.k == "op" && t.v == v
}
func (l *lexer) expect(v string) error {
	if !l.isOp(v) {
		return fmt.Errorf("expected %q, got %q", v, l.peek().v)
	}
	l.pos++
	return nil
}

func (l *lexer) expr() (Expr, error) {
	t := l.peek()
	if t.k == "id" && (t.v == "forall" || t.v == "exists") {
		l.next()
		q := &EQuant{Forall: t.v == "forall"}
		for {
			n := l.next()
			if n.k != "id" {
				return nil, fmt.Errorf("quantifier variable expected")
			}
			ty := "int"
			if l.peek().k == "id" {
				ty = l.next().v
				for l.isOp(".") {
					l.next()
					ty += "." + l.next().v
				}
			}
			q.Vars = append(q.Vars, SpecParam{n.v, ty})
			if l.isOp(",") {
				l.next()
				continue
			}
			break
		}
		if err := l.expect("::"); err != nil {
			return nil, err
		}
		b, err := l.expr()
		if err != nil {
			return nil, err
		}
		q.Body = b
		return q, nil
	}
	return l.iff()
}

func (l *lexer) iff() (Expr, error) {
	x, err := l.impl()
	if err != nil {
		return nil, err
	}
	for l.isOp("<==>") {
		l.next()
		y, err := l.impl()
		if err != nil {
			return nil, err
		}
		x = &EBinary{"<==>", x, y}
	}
	return x, nil
}

func (l *lexer) impl() (Expr, error) {
	x, err := l.tern()
	if err != nil {
		return nil, err
	}
	if l.isOp("==>") {
		l.next()
		var y Expr
		if t := l.peek(); t.k == "id" && (t.v == "forall" || t.v == "exists") {
			y, err = l.expr()
		} else {
			y, err = l.impl()
		}
		if err != nil {
			return nil, err
		}
		return &EBinary{"==>", x, y}, nil
	}
	return x, nil
}

func (l *lexer) tern() (Expr, error) {
	c, err := l.or()
	if err != nil {
		return nil, err
	}
	if l.isOp("?") {
		l.next()
		t, err := l.tern()
		if err != nil {
			return nil, err
		}
		if err := l.expect(":"); err != nil {
			return nil, err
		}
		e, err := l.tern()
		if err != nil {
			return nil, err
		}
		return &EIte{c, t, e}, nil
	}
	return c, nil
}

func (l *lexer) binl(sub func() (Expr, error), ops ...string) (Expr, error) {
	x, err := sub()
	if err != nil {
		return nil, err
	}
	for {
		found := ""
		for _, op := range ops {
			if l.isOp(op) {
				found = op
			}
		}
		if found == "" {
			return x, nil
		}
		l.next()
		y, err := sub()
		if err != nil {
			return nil, err
		}
		x = &EBinary{found, x, y}
	}
}

func (l *lexer) or() (Expr, error)  { return l.binl(l.and, "||") }
func (l *lexer) and() (Expr, error) { return l.binl(l.cmp, "&&") }
func (l *lexer) cmp() (Expr, error) {
	x, err := l.add()
	if err != nil {
		return nil, err
	}
	for _, op := range []string{"==", "!=", "<=", ">=", "<", ">"} {
		if l.isOp(op) {
			l.next()
			y, err := l.add()
			if err != nil {
				return nil, err
			}
			x = &EBinary{op, x, y}
			// chained comparison a <= b < c
			for _, op2 := range []string{"<=", "<", ">=", ">"} {
				if l.isOp(op2) {
					l.next()
					z, err := l.add()
					if err != nil {
						return nil, err
					}
					return &EBinary{"&&", x, &EBinary{op2, y, z}}, nil
				}
			}
			return x, nil
		}
	}
	return x, nil
}
func (l *lexer) add() (Expr, error) { return l.binl(l.mul, "+", "-") }
func (l *lexer) mul() (Expr, error) { return l.binl(l.unary, "*", "/", "%") }
func (l *lexer) unary() (Expr, error) {
	if l.isOp("!") || l.isOp("-") || l.isOp("&") {
		op := l.next().v
		x, err := l.unary()
		if err != nil {
			return nil, err
		}
		if op == "-" {
			if n, ok := x.(*EInt); ok {
				return &EInt{"-" + n.V}, nil
			}
		}
		return &EUnary{op, x}, nil
	}
	return l.postfix()
}

func (l *lexer) postfix() (Expr, error) {
	x, err := l.primary()
	if err != nil {
		return nil, err
	}
	for {
		switch {
		case l.isOp("."):
			l.next()
			n := l.next()
			if n.k != "id" {
				return nil, fmt.Errorf("selector expected")
			}
			x = &ESel{x, n.v}
		case l.isOp("["):
			l.next()
			var lo Expr
			if !l.isOp(":") {
				lo, err = l.expr()
				if err != nil {
					return nil, err
				}
			}
			if l.isOp(":") {
				l.next()
				var hi Expr
				if !l.isOp("]") {
					hi, err = l.expr()
					if err != nil {
						return nil, err
					}
				}
				if err := l.expect("]"); err != nil {
					return nil, err
				}
				x = &ESlice{x, lo, hi}
			} else {
				if err := l.expect("]"); err != nil {
					return nil, err
				}
				x = &EIndex{x, lo}
			}
		case l.isOp("("):
			// call: only on identifiers / qualified names
			name := ""
			switch f := x.(type) {
			case *EIdent:
				name = f.Name
			case *ESel:
				name = f.String()
			default:
				return nil, fmt.Errorf("call of non-name")
			}
			l.next()
			var args []Expr
			for !l.isOp(")") {
				a, err := l.expr()
				if err != nil {
					return nil, err
				}
				args = append(args, a)
				if l.isOp(",") {
					l.next()
				}
			}
			l.next()
			if name == "old" {
				if len(args) != 1 {
					return nil, fmt.Errorf("old takes one argument")
				}
				x = &EOld{args[0]}
			} else {
				x = &ECall{name, args}
			}
		default:
			return x, nil
		}
	}
}

func (l *lexer) primary() (Expr, error) {
	t := l.next()
	switch t.k {
	case "id":
		switch t.v {
		case "true":
			return &EBool{true}, nil
		case "false":
			return &EBool{false}, nil
		case "nil":
			return &ENil{}, nil
		case "forall", "exists":
			l.pos--
			return l.expr()
		}
		return &EIdent{t.v}, nil
	case "int":
		return &EInt{t.v}, nil
	case "str":
		return &EStr{t.v}, nil
	case "op":
		if t.v == "(" {
			e, err := l.expr()
			if err != nil {
				return nil, err
			}
			if err := l.expect(")"); err != nil {
				return nil, err
			}
			return e, nil
		}
	}
	return nil, fmt.Errorf("unexpected token %q", t.v)
}
